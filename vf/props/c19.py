"""C19 — The CLI prints what the library computes; default-format specs never execute.

Sub-checks
  cli        in-process glom.cli.main(argv) with redirected stdin/stdout: JSON-representable targets
             (json / python literal / yaml / toml), literal specs derived from the target (python / json
             spec format), target and spec delivered by argv, file or stdin, --indent, --scalar;
             malformed / unreadable targets, among them bytes on standard input that are not UTF-8 (stdin is a
             TextIOWrapper over the bytes, errors='strict' as in a UTF-8 locale or 'surrogateescape' as in C / POSIX),
             a target ARGUMENT whose bytes are not UTF-8 (argv strings carrying lone surrogates, as the interpreter
             decodes argv), no / a closed standard input (sys.stdin None or a closed stream) behind each of the three
             stdin channels, and a --spec-file that is not UTF-8
  hostile    spec texts from a grammar of calls, attribute access, lambdas, comprehensions, f-strings and
             dunder walks, each arranged so that *executing* it flips a canary planted in builtins;
             differential oracle: ast.literal_eval (literal -> library result, else rejection) or the
             text taken as a path string
  process    the same expectations against real `python -m glom` subprocesses (a sample); undecodable stdin
             under LC_ALL=C.UTF-8 / LC_ALL=C / PYTHONIOENCODING=utf-8:strict
  process-stdin  ENUMERATED: undecodable stdin as real processes, every stdin channel x those three configurations
             x position of the bad bytes (thorough: x every bad byte sequence x target format)
  process-arg       ENUMERATED, real processes: bytes that are not UTF-8 in the target argument x configuration x target format
  process-nostdin   ENUMERATED, real processes started with standard input closed (`<&-`) x stdin channel x spec channel
  process-specfile  ENUMERATED, real processes: a --spec-file that is not UTF-8 x target channel x position of the bad bytes
"""
import io
import os
import ast
import sys
import json
import shutil
import builtins
import tempfile
import subprocess

from hypothesis import strategies as st

import glom
from glom import GlomError
from glom import cli

from .. import fuzzrun
from ..runner import Sub, Mismatch, HarnessBug
from .. import boot

PROPERTY = 'C19'
RULE = ('targets: recursive JSON values (unicode, large ints, floats, empty containers, falsy scalars) serialised as json / python '
        'literal / yaml / toml; specs: literal specs derived from the target (paths, dicts, lists, tuples, nested; some failing) '
        'as python-literal or json text, raw path text when possible; channels argv / file / stdin; flags --indent, --scalar; '
        'malformed / unreadable targets incl. non-UTF-8 bytes in a file or on stdin (3 stdin channels x strict / surrogateescape decoding), '
        'non-UTF-8 bytes in the target argument (lone surrogates in argv), no / a closed standard input x 3 stdin channels, a non-UTF-8 spec file. '
        'hostile: generated non-literal spec texts with an execution canary. '
        'Non-trivial = spec with >= 2 levels, or a non-argv channel, or a non-default flag.')
ASSUMPTIONS = [
    'expected stdout: json.dumps(glom(target, spec), indent=indent or None, sort_keys=True) + newline; --scalar prints str(result) for scalar results',
    'malformed *spec* text is only required not to execute and not to print a result; a spec FILE that cannot be read as text '
    'is unreadable input like an unreadable target file (the CLI words both the same way: could not read spec / target file): usage error',
    'no standard input at all (descriptor 0 closed: sys.stdin is None) and no target argument means no target was given: the empty '
    'default {} as for an empty target (test_cli_blank); an explicit - / --target-file - then names something unreadable: usage error. '
    'A closed stream OBJECT as sys.stdin (in-process only) is fed to the two explicit channels only',
    'bytes in argv reach the CLI the way the interpreter decodes them: UTF-8 with surrogateescape (bytes that are not UTF-8 become '
    'lone surrogates); a NUL byte cannot be passed in argv',
    'targets use string keys only (json.dumps(sort_keys=True) cannot order mixed keys)',
    'a usage error is told from other non-zero exits by: no traceback / no escaping exception, and nothing on stdout '
    '(results and GlomError messages are what the CLI prints there)',
    'standard input is bytes: well-formed targets reach the in-process CLI as their UTF-8 encoding behind a TextIOWrapper '
    '(a text that has no UTF-8 encoding is a harness error, never fed)',
]


# ---------------------------------------------------------------------------
# running the CLI

class Result(object):
    def __init__(self, status, out, exc, err=''):
        self.status, self.out, self.exc, self.err = status, out, exc, err

    def __repr__(self):
        return 'status=%r stdout=%r exc=%r stderr=%r' % (self.status, self.out[:300], self.exc, self.err[-300:])


def stdin_bytes(stdin_data):
    """what arrives on standard input is bytes: text is delivered as its UTF-8 encoding"""
    if stdin_data is None:
        return b''
    if isinstance(stdin_data, bytes):
        return stdin_data
    try:
        return stdin_data.encode('utf-8')
    except UnicodeError as e:
        # (a lone surrogate in a well-formed target's text would itself be an undecodable stdin: a usage error by the statement)
        raise HarnessBug('stdin text of a well-formed target has no UTF-8 encoding: %r (%s)' % (stdin_data[:200], e))


def run_inprocess(argv, stdin_data, stdin_errors='strict', stdin_state='open'):
    """stdin_errors: the error handler of sys.stdin, 'strict' (UTF-8 locales) or 'surrogateescape' (C / POSIX / C.UTF-8);
    stdin_state: 'open', 'none' (sys.stdin is None: what the interpreter sets up when descriptor 0 is closed) or 'closed' (a closed stream)"""
    old = sys.stdin, sys.stdout, sys.stderr
    sys.stdin = io.TextIOWrapper(io.BytesIO(stdin_bytes(stdin_data)), encoding='utf-8', errors=stdin_errors, newline='\n')
    if stdin_state == 'none':
        sys.stdin = None
    elif stdin_state == 'closed':
        sys.stdin.close()
    elif stdin_state != 'open':
        raise HarnessBug('stdin_state %r' % (stdin_state,))
    sys.stdout = out = io.StringIO()
    sys.stderr = err = io.StringIO()
    status, exc = None, None
    try:
        try:
            status = cli.main(['glom'] + list(argv))
        except SystemExit as e:
            status = e.code if e.code is not None else 0
            exc = type(e).__name__
        except BaseException as e:
            status = 'exception'
            exc = type(e).__name__
    finally:
        sys.stdin, sys.stdout, sys.stderr = old
    return Result(status, out.getvalue(), exc, err.getvalue())


PROCESS_ENVS = {            # configurations that decide how the interpreter decodes standard input
    'C.UTF-8': {'LC_ALL': 'C.UTF-8'},                            # utf-8 / surrogateescape
    'C': {'LC_ALL': 'C'},                                        # (coerced) utf-8 / surrogateescape
    'ioenc-strict': {'PYTHONIOENCODING': 'utf-8:strict'},        # what every ordinary UTF-8 locale does
}


CLOSE_STDIN = ['/bin/sh', '-c', 'exec "$0" "$@" <&-']          # (what a shell user writes: python -m glom ... <&-)
_PROBED = {}


def probe_closed_stdin():
    """harness self-check, once per process: behind CLOSE_STDIN the interpreter really starts without a standard input"""
    if 'closed-stdin' not in _PROBED:
        p = subprocess.run(CLOSE_STDIN + [sys.executable, '-c', 'import sys; print(sys.stdin is None)'], stdin=subprocess.DEVNULL,
                           stdout=subprocess.PIPE, stderr=subprocess.PIPE, timeout=120)
        _PROBED['closed-stdin'] = (p.returncode, p.stdout.strip(), p.stderr[-300:])
    if _PROBED['closed-stdin'][:2] != (0, b'True'):
        raise HarnessBug('cannot start a process with standard input closed: %r' % (_PROBED['closed-stdin'],))


def run_subprocess(argv, stdin_data, cwd, penv=None, stdin_closed=False):
    """argv strings go out as UTF-8 with surrogateescape: lone surrogates (U+DC80..U+DCFF) become the raw bytes they stand for"""
    env = dict(os.environ)
    env['PYTHONPATH'] = boot.REPO
    env['PYTHONDONTWRITEBYTECODE'] = '1'
    if penv is not None:
        for k in list(env):
            if k in ('LANG', 'LANGUAGE', 'PYTHONIOENCODING', 'PYTHONUTF8', 'PYTHONCOERCECLOCALE') or k.startswith('LC_'):
                del env[k]
        env.update(PROCESS_ENVS[penv])
    try:
        args = [a.encode('utf-8', 'surrogateescape') for a in argv]
    except UnicodeError as e:
        raise HarnessBug('argument that cannot be passed to a process: %r (%s)' % (argv, e))
    if any(b'\0' in a for a in args):
        raise HarnessBug('NUL byte in an argument: %r' % (argv,))
    cmd = [sys.executable, '-B', '-m', 'glom'] + args
    if stdin_closed:
        if stdin_data is not None:
            raise HarnessBug('data for a closed standard input')
        probe_closed_stdin()
        p = subprocess.run(CLOSE_STDIN + cmd, stdin=subprocess.DEVNULL,
                           stdout=subprocess.PIPE, stderr=subprocess.PIPE, env=env, cwd=cwd, timeout=120)
    else:
        p = subprocess.run(cmd, input=stdin_bytes(stdin_data),
                           stdout=subprocess.PIPE, stderr=subprocess.PIPE, env=env, cwd=cwd, timeout=120)
    exc = None
    err = p.stderr.decode('utf8', 'replace')
    if 'Traceback (most recent call last)' in err:
        exc = (err.strip().splitlines() or ['?'])[-1].split(':')[0]
    return Result(p.returncode, p.stdout.decode('utf8', 'replace'), exc, err)


# ---------------------------------------------------------------------------
# generation

KEYS = ['a', 'b', 'c', 'key', 'x y', 'é', 'n1', '\U0001f600k']      # (the last one: JSON text spells it as a surrogate pair)


def gen_value(draw, d):
    r = draw(st.sampled_from(range(12)))
    if d <= 0 or r < 4:
        return draw(st.sampled_from([0, 1, -7, 2 ** 70, 1.5, -0.25, True, False, None, '', 's', 'üñí', 'with "quote"', "it's", 'a.b']))
    if r < 8:
        ks = draw(st.lists(st.sampled_from(KEYS), max_size=3, unique=True))
        return dict((k, gen_value(draw, d - 1)) for k in ks)
    return [gen_value(draw, d - 1) for _ in range(draw(st.integers(0, 3)))]


def gen_spec(draw, value, d):
    """literal spec recipe valid (mostly) for value: ['s', path] ['d', [[k, S]..]] ['l', S] ['t', [S..]]"""
    r = draw(st.sampled_from(range(10)))
    if r == 0:
        return ['s', draw(st.sampled_from(['missing', 'a.missing', '9']))]
    if isinstance(value, dict) and value and (d <= 0 or r < 4):
        k = draw(st.sampled_from(sorted(value)))
        if '.' in k:
            return ['s', 'missing']
        sub = value[k]
        if isinstance(sub, dict) and sub and draw(st.booleans()):
            k2 = draw(st.sampled_from(sorted(sub)))
            if '.' not in k2:
                return ['s', k + '.' + k2]
        if isinstance(sub, list) and sub and draw(st.booleans()):
            return ['s', '%s.%d' % (k, draw(st.integers(0, len(sub) - 1)))]
        return ['s', k]
    if isinstance(value, list) and value and r < 6:
        if d > 0 and draw(st.booleans()):
            return ['l', gen_spec(draw, value[0], d - 1)]
        return ['s', str(draw(st.integers(0, len(value) - 1)))]
    if d > 0 and r < 8:
        n = draw(st.integers(0, 3))
        ks = draw(st.lists(st.sampled_from(['out', 'k2', 'z', 'ä']), min_size=n, max_size=n, unique=True))
        return ['d', [[k, gen_spec(draw, value, d - 1)] for k in ks]]
    if d > 0 and r == 8:
        first = gen_spec(draw, value, d - 1)
        try:
            mid = glom.glom(value, build_spec(first))
        except Exception:
            return ['t', [first]]
        return ['t', [first, gen_spec(draw, mid, d - 1)]]
    return ['t', []]          # the empty chain: the target itself


def build_spec(s):
    if s[0] == 's':
        return s[1]
    if s[0] == 'd':
        return dict((k, build_spec(v)) for k, v in s[1])
    if s[0] == 'l':
        return [build_spec(s[1])]
    return tuple(build_spec(x) for x in s[1])


def has_tuple(s):
    if s[0] == 't':
        return True
    if s[0] == 'd':
        return any(has_tuple(v) for _, v in s[1])
    if s[0] == 'l':
        return has_tuple(s[1])
    return False


def toml_ok(v, top=True):
    if top:
        return isinstance(v, dict) and all(toml_ok(x, False) for x in v.values())
    if v is None:
        return False
    if isinstance(v, dict):
        return all(toml_ok(x, False) for x in v.values())
    if isinstance(v, list):
        return all(toml_ok(x, False) for x in v)
    if isinstance(v, int) and not isinstance(v, bool):
        return -2 ** 63 <= v < 2 ** 63
    return True


def toml_value(v):
    if isinstance(v, bool):
        return 'true' if v else 'false'
    if isinstance(v, str):
        return json.dumps(v, ensure_ascii=False)      # (TOML has no surrogate-pair escapes)
    if isinstance(v, float):
        return repr(v)
    if isinstance(v, int):
        return str(v)
    if isinstance(v, list):
        return '[' + ', '.join(toml_value(x) for x in v) + ']'
    return '{' + ', '.join('%s = %s' % (json.dumps(k, ensure_ascii=False), toml_value(x)) for k, x in v.items()) + '}'


def toml_dumps(d):
    return ''.join('%s = %s\n' % (json.dumps(k, ensure_ascii=False), toml_value(v)) for k, v in d.items())


def serialise(value, fmt):
    if fmt == 'json':
        return json.dumps(value)
    if fmt == 'python':
        return repr(value)
    if fmt == 'yaml':
        import yaml
        return yaml.safe_dump(value, allow_unicode=True, sort_keys=False)      # (keys in the target's own order)
    return toml_dumps(value)


MALFORMS = ['truncate', 'wrong-format', 'missing-file', 'construct-error', 'undecodable-file', 'undecodable-stdin',
            'undecodable-arg', 'stdin-closed', 'undecodable-spec-file']
# (the classes that are themselves matrices - channels x decodings x positions - weigh more)
MALFORM_DRAW = [None] * 13 + MALFORMS + ['undecodable-stdin'] * 2 + ['undecodable-arg', 'stdin-closed', 'undecodable-spec-file']
STDIN_CHANNELS = ['stdin-dash', 'stdin-file-dash', 'stdin-implicit']
# byte sequences that no UTF-8 text contains (hex): latin-1 e-acute, 0xff.., a cut-off 3-byte sequence, an overlong '/',
# a UTF-8-encoded surrogate, a UTF-16 BOM + '{', a 5-byte lead, a stray continuation byte
BAD_BYTES = ['e9', 'fffefa', 'e282', 'c0af', 'eda080', 'fffe7b00', 'f888808080', '80']
ARG_BAD_BYTES = [b for b in BAD_BYTES if '00' not in [b[i:i + 2] for i in range(0, len(b), 2)]]      # (no NUL in argv)
BAD_MARK = '@@'


def gen_undecodable_stdin(draw, recipe):
    """the target arrives on standard input (each of the three ways to say so) as bytes that are not UTF-8; `bad_where`:
    inside a string value of an otherwise well-formed document (decoded leniently the document would still load),
    before it, after it, or the bad bytes alone"""
    recipe['malform'] = 'undecodable-stdin'
    recipe['tsource'] = draw(st.sampled_from(STDIN_CHANNELS))
    if recipe['tsource'] == 'stdin-dash':
        recipe['ssource'] = 'argv'                  # ('-' is the target positional: only with the spec as an argument)
    recipe['bad'] = draw(st.sampled_from(BAD_BYTES))
    recipe['bad_where'] = draw(st.sampled_from(['string', 'string', 'head', 'tail', 'only']))
    recipe['stdin_errors'] = draw(st.sampled_from(['strict', 'surrogateescape']))       # in-process (sub cli)
    recipe['penv'] = draw(st.sampled_from(sorted(PROCESS_ENVS)))                          # real process (sub process)
    if recipe['bad_where'] == 'string' and draw(st.booleans()):
        recipe['spec'] = ['s', 'zbad']              # the value that holds the bad bytes
        recipe['sformat'] = draw(st.sampled_from(['python', 'json']))
    return recipe


def gen_undecodable_arg(draw, recipe):
    """the target is an ARGUMENT whose bytes are not UTF-8 (python -m glom a $'{"a": "\\xff"}'); positions as for standard input.
    Inside a string value the loaders of json and toml take the decoded argument (lone surrogates) without complaint"""
    recipe['malform'] = 'undecodable-arg'
    recipe['tsource'] = recipe['ssource'] = 'argv'
    recipe['bad'] = draw(st.sampled_from(ARG_BAD_BYTES))
    recipe['bad_where'] = draw(st.sampled_from(['string', 'string', 'string', 'string', 'head', 'tail', 'only']))
    recipe['penv'] = draw(st.sampled_from(sorted(PROCESS_ENVS)))                          # real process
    if recipe['tformat'] != 'json' and draw(st.booleans()):
        recipe['tformat'] = 'json'
    if recipe['bad_where'] == 'tail' and serialise(recipe['target'], recipe['tformat']).startswith('-'):
        recipe['bad_where'] = 'head'                # (an argument with a leading '-' would be read as a flag)
    if recipe['bad_where'] == 'string' and draw(st.booleans()):
        recipe['spec'] = ['s', 'zbad']              # the value that holds the bad bytes
        recipe['sformat'] = draw(st.sampled_from(['python', 'json']))
    return recipe


def gen_stdin_closed(draw, recipe):
    """no standard input (`<&-`: sys.stdin is None; in-process also a closed stream object) behind each way to ask for it.
    Without a target argument there is then no target at all: the specs of that channel are drawn for the empty default"""
    recipe['malform'] = 'stdin-closed'
    recipe['tsource'] = draw(st.sampled_from(STDIN_CHANNELS))
    if recipe['tsource'] == 'stdin-dash':
        recipe['ssource'] = 'argv'
    if recipe['tsource'] == 'stdin-implicit':
        recipe['stdin_state'] = 'none'
        recipe['target'] = {}
        recipe['spec'] = gen_spec(draw, {}, draw(st.sampled_from([0, 1, 2])))
        if has_tuple(recipe['spec']):
            recipe['sformat'] = 'python'
    else:
        recipe['stdin_state'] = draw(st.sampled_from(['none', 'closed']))        # in-process (sub cli)
    return recipe


def gen_undecodable_spec_file(draw, recipe):
    """--spec-file names a file that is not UTF-8 text; the target is well-formed and arrives by any channel"""
    recipe['malform'] = 'undecodable-spec-file'
    recipe['ssource'] = 'file'
    recipe['bad'] = draw(st.sampled_from(BAD_BYTES))
    recipe['bad_where'] = draw(st.sampled_from(['string', 'string', 'head', 'tail', 'only']))
    return recipe


GEN_MALFORM = {'undecodable-stdin': gen_undecodable_stdin, 'undecodable-arg': gen_undecodable_arg,
               'stdin-closed': gen_stdin_closed, 'undecodable-spec-file': gen_undecodable_spec_file}


def gen_cli(draw, force_malform=None):
    value = gen_value(draw, draw(st.sampled_from([1, 2, 3])))
    if draw(st.integers(0, 5)) == 0:
        value = draw(st.sampled_from([0, [], '', None, False, {}, [0]]))
    spec = gen_spec(draw, value, draw(st.sampled_from([0, 1, 2, 3])))
    if force_malform is None and isinstance(value, dict) and 'zblk' not in value and draw(st.sampled_from(range(12))) == 0:
        value = dict(value)
        value['zblk'] = 'line one\nline two\n'
        spec = gen_spec(draw, value, draw(st.sampled_from([0, 1, 2]))) if draw(st.booleans()) else ['s', 'zblk']
        return {'target': value, 'tformat': 'yaml', 'spec': spec, 'sformat': 'python' if has_tuple(spec) else draw(st.sampled_from(['python', 'json'])),
                'tsource': draw(st.sampled_from(['argv', 'file', 'stdin-dash'])), 'ssource': 'argv', 'indent': None, 'scalar': False,
                'raw_path': False, 'malform': None, 'yaml_block_tail': True}
    fmts = ['json', 'json', 'python', 'yaml'] + (['toml', 'toml'] if toml_ok(value) else [])
    sformat = 'python' if has_tuple(spec) else draw(st.sampled_from(['python', 'python', 'json']))
    recipe = {'target': value, 'tformat': draw(st.sampled_from(fmts)), 'spec': spec, 'sformat': sformat,
              'tsource': draw(st.sampled_from(['argv', 'argv', 'file', 'stdin-dash', 'stdin-file-dash', 'stdin-implicit'])),
              'ssource': draw(st.sampled_from(['argv', 'argv', 'file'])),
              'indent': draw(st.sampled_from([None, None, 0, 1, 2, 4, 8])),
              'scalar': draw(st.sampled_from([False, False, True])),
              'raw_path': draw(st.booleans()),
              'malform': force_malform if force_malform is not None else draw(st.sampled_from(MALFORM_DRAW))}
    if recipe['malform'] in GEN_MALFORM:
        recipe = GEN_MALFORM[recipe['malform']](draw, recipe)
    return recipe


def gen_process(draw):
    """the sample of real processes is small: one case in eight is forced to be the class that depends on the interpreter's
    own stdin (not the all-minimal example every shard starts with; the whole matrix is enumerated by process-stdin)"""
    if draw(st.sampled_from(range(8))) == 7:
        return gen_cli(draw, force_malform='undecodable-stdin')
    return gen_cli(draw)


def enum_process_stdin(tier):
    """every stdin channel x every stdin decoding configuration of the interpreter x position of the bad bytes, as real processes"""
    for channel in STDIN_CHANNELS:
        for penv in sorted(PROCESS_ENVS):
            for where in (['string', 'head', 'tail', 'only'] if tier == 'thorough' else ['string', 'only']):
                for bad in (BAD_BYTES if tier == 'thorough' else ['e9']):
                    for tformat in (['json', 'python', 'yaml', 'toml'] if tier == 'thorough' and where == 'string' else ['json']):
                        yield {'target': {'a': 1}, 'tformat': tformat, 'spec': ['s', 'zbad' if where == 'string' else 'a'], 'sformat': 'python',
                               'tsource': channel, 'ssource': 'argv', 'indent': None, 'scalar': False, 'raw_path': False,
                               'malform': 'undecodable-stdin', 'bad': bad, 'bad_where': where, 'stdin_errors': 'strict', 'penv': penv}


ENUM_BASE = {'target': {'a': 1}, 'tformat': 'json', 'spec': ['s', 'a'], 'sformat': 'python', 'tsource': 'argv', 'ssource': 'argv',
             'indent': None, 'scalar': False, 'raw_path': False}


def enum_process_arg(tier):
    """real processes: bytes that are not UTF-8 in the target argument x configuration x target format (x the value asked for)"""
    th, base = tier == 'thorough', ENUM_BASE
    for penv in sorted(PROCESS_ENVS):
        for tformat in (['json', 'python', 'yaml', 'toml'] if th else ['json', 'toml']):
            for where in (['string', 'head', 'tail', 'only'] if th else ['string']):
                for bad in (ARG_BAD_BYTES if th else ['ff']):
                    for key in (['zbad', 'a'] if where == 'string' else ['a']):
                        yield dict(base, malform='undecodable-arg', tformat=tformat, spec=['s', key], bad=bad, bad_where=where, penv=penv)


def enum_process_nostdin(tier):
    """real processes started with standard input closed (<&-) x stdin channel x spec channel"""
    th, base = tier == 'thorough', ENUM_BASE
    for penv in (sorted(PROCESS_ENVS) if th else ['C.UTF-8']):
        for channel in STDIN_CHANNELS:
            for ssource in (['argv'] if channel == 'stdin-dash' else ['argv', 'file']):
                if channel == 'stdin-implicit':
                    for spec in [['s', 'a'], ['t', []], ['d', [['out', ['t', []]]]]]:
                        yield dict(base, malform='stdin-closed', target={}, spec=spec, tsource=channel, ssource=ssource,
                                   stdin_state='none', penv=penv)
                else:
                    yield dict(base, malform='stdin-closed', tsource=channel, ssource=ssource, stdin_state='none', penv=penv)


def enum_process_specfile(tier):
    """real processes: a --spec-file that is not UTF-8 x target channel x position of the bad bytes"""
    th, base = tier == 'thorough', ENUM_BASE
    for penv in (sorted(PROCESS_ENVS) if th else ['C.UTF-8', 'ioenc-strict']):
        for tsource in (['argv', 'file'] + STDIN_CHANNELS if th else ['argv', 'stdin-implicit']):
            for where in (['string', 'head', 'tail', 'only'] if th else ['string', 'only']):
                for bad in (BAD_BYTES if th else ['ff']):
                    yield dict(base, malform='undecodable-spec-file', tsource=tsource, ssource='file', bad=bad, bad_where=where, penv=penv)


def not_utf8(data):
    try:
        data.decode('utf-8')
    except UnicodeDecodeError:
        return data
    raise HarnessBug('bytes meant to be undecodable are UTF-8: %r' % (data,))


def undecodable_spec_text(recipe, spec_text):
    """the bytes of the spec file for malform == 'undecodable-spec-file': the bad bytes inside the text (before its last character:
    within the quotes of a path string), before it, after it, or alone"""
    bad = bytes.fromhex(recipe['bad'])
    text = spec_text.encode('utf-8')
    where = recipe['bad_where']
    if where == 'string':
        return not_utf8(text[:-1] + bad + text[-1:])
    if where == 'head':
        return not_utf8(bad + text)
    if where == 'tail':
        return not_utf8(text + bad)
    if where != 'only':
        raise HarnessBug('bad_where %r' % (where,))
    return not_utf8(bad)


def undecodable_document(recipe):
    """the bytes for malform == 'undecodable-stdin' / 'undecodable-arg'"""
    bad = bytes.fromhex(recipe['bad'])
    where = recipe['bad_where']
    value = recipe['target']
    if where == 'string':
        value = dict(value, zbad='caf' + BAD_MARK) if isinstance(value, dict) else {'zbad': 'caf' + BAD_MARK, 'v': value}
    text = serialise(value, recipe['tformat']).encode('utf-8')
    if where == 'string':
        if text.count(BAD_MARK.encode()) != 1:
            raise HarnessBug('marker not exactly once in %r' % (text,))
        data = text.replace(BAD_MARK.encode(), bad)
    elif where == 'head':
        data = bad + text
    elif where == 'tail':
        data = text + bad
    else:
        data = bad
    return not_utf8(data)


def make_invocation(recipe, tmp):
    """returns (argv, stdin data (str, or bytes when they are not text, or None), spec, target_text);
    argv holds str: bytes that are not UTF-8 appear the way the interpreter decodes argv (surrogateescape)"""
    spec = build_spec(recipe['spec'])
    sformat = recipe['sformat']
    if sformat == 'json':
        spec_text = json.dumps(spec)
    else:
        spec_text = repr(spec)
        if isinstance(spec, str) and recipe['raw_path'] and spec and spec[0] not in '"\'[{(' and not spec.startswith('-'):
            spec_text = spec            # trivial path access: bare text
    if recipe.get('yaml_block_tail'):
        # hand-written YAML: the document ends in a block scalar, whose value keeps its final newline
        rest = dict((k, v) for k, v in recipe['target'].items() if k != 'zblk')
        target_text = (serialise(rest, 'yaml') if rest else '') + 'zblk: |\n  line one\n  line two\n'
    else:
        target_text = serialise(recipe['target'], recipe['tformat'])
    malform = recipe['malform']
    if malform == 'truncate':
        target_text = {'json': '{"a": [1, 2', 'python': "{'a': [1, 2", 'yaml': '{a: [1, 2', 'toml': 'a = [1, 2'}[recipe['tformat']]
    elif malform == 'construct-error':
        # syntactically fine, but the loader fails while constructing the value (not its nominal parse error)
        target_text = {'json': '{"a": 1e999999, "b": [1, 2', 'python': "{'a': {[1, 2]: 3}}", 'yaml': 'a: 2001-13-45',
                       'toml': 'a = 1\na = 2'}[recipe['tformat']]
    elif malform == 'wrong-format':
        # text that is well-formed in another format but not in this one
        target_text = {'json': 'a = 1', 'python': 'a = 1', 'yaml': 'a: b: [c', 'toml': '{"a": 1}'}[recipe['tformat']]
    elif malform == 'undecodable-stdin':
        if recipe['tsource'] not in STDIN_CHANNELS:
            raise HarnessBug('undecodable-stdin with tsource %r' % (recipe['tsource'],))
        target_text = undecodable_document(recipe)          # bytes
    elif malform == 'undecodable-arg':
        if (recipe['tsource'], recipe['ssource']) != ('argv', 'argv'):
            raise HarnessBug('undecodable-arg with tsource %r, ssource %r' % (recipe['tsource'], recipe['ssource']))
        target_text = undecodable_document(recipe).decode('utf-8', 'surrogateescape')
        if target_text.startswith('-') or '\0' in target_text or spec_text == '' or spec_text.startswith('-'):
            raise HarnessBug('undecodable-arg: %r %r cannot be passed as two positional arguments' % (spec_text, target_text))
    elif malform == 'stdin-closed':
        if recipe['tsource'] not in STDIN_CHANNELS or recipe.get('stdin_state') not in ('none', 'closed'):
            raise HarnessBug('stdin-closed with tsource %r, stdin_state %r' % (recipe['tsource'], recipe.get('stdin_state')))
    elif malform == 'undecodable-spec-file' and recipe['ssource'] != 'file':
        raise HarnessBug('undecodable-spec-file with ssource %r' % (recipe['ssource'],))
    argv = []
    stdin_text = None
    flags = ['--target-format', recipe['tformat']]
    if sformat != 'python':
        flags += ['--spec-format', sformat]
    if recipe['indent'] is not None:
        flags += ['--indent', str(recipe['indent'])]
    if recipe['scalar']:
        flags += ['--scalar']
    ssource, tsource = recipe['ssource'], recipe['tsource']
    if spec_text == '' and ssource == 'argv' and tsource == 'argv':
        tsource = 'file'
    if spec_text.startswith('-') and ssource == 'argv':
        ssource = 'file'
    pos = []
    if ssource == 'file':
        sp = os.path.join(tmp, 'spec.txt')
        with open(sp, 'wb') as f:
            f.write(undecodable_spec_text(recipe, spec_text) if malform == 'undecodable-spec-file' else spec_text.encode('utf8'))
        flags += ['--spec-file', sp]
    else:
        pos.append(spec_text)
    if malform == 'missing-file':
        flags += ['--target-file', os.path.join(tmp, 'does-not-exist.json')]
    elif malform == 'undecodable-file':
        # a file that cannot be read as text at all (not UTF-8): unreadable, like a missing one
        tp = os.path.join(tmp, 'target.bin')
        with open(tp, 'wb') as f:
            f.write(b'{"a": "\xff\xfe\xfa"}')
        flags += ['--target-file', tp]
    elif tsource == 'argv':
        if ssource == 'file':
            # with a spec file the first positional would be taken as the spec: use a target file instead
            tp = os.path.join(tmp, 'target.txt')
            with open(tp, 'w', encoding='utf8') as f:
                f.write(target_text)
            flags += ['--target-file', tp]
        else:
            if target_text.startswith('-') and target_text != '-':
                tp = os.path.join(tmp, 'target.txt')
                with open(tp, 'w', encoding='utf8') as f:
                    f.write(target_text)
                flags += ['--target-file', tp]
            else:
                pos.append(target_text)
    elif tsource == 'file':
        tp = os.path.join(tmp, 'target.txt')
        with open(tp, 'w', encoding='utf8') as f:
            f.write(target_text)
        flags += ['--target-file', tp]
    elif tsource == 'stdin-dash' and ssource == 'argv':
        pos.append('-')
        stdin_text = target_text
    elif tsource in ('stdin-file-dash', 'stdin-dash'):
        flags += ['--target-file', '-']
        stdin_text = target_text
    else:
        stdin_text = target_text
    if malform == 'stdin-closed':
        stdin_text = None           # (nothing can be delivered)
    return flags + pos, stdin_text, spec, target_text


def expected_output(recipe, spec, target_value):
    """('ok', stdout) | ('glomerror', class name)"""
    try:
        result = glom.glom(target_value, spec)
    except GlomError as e:
        return ('glomerror', type(e).__name__)
    indent = recipe['indent'] if recipe['indent'] is not None else 2
    if recipe['scalar'] and (result is None or isinstance(result, (str, int, float, bool))):
        return ('ok', str(result))
    return ('ok', json.dumps(result, indent=indent or None, sort_keys=True) + '\n')


def stdin_channel(argv):
    """the stdin channel as it appears on the command line"""
    if argv and argv[-1] == '-' and '--target-file' not in argv[-2:-1]:
        return 'dash-positional'
    return 'target-file-dash' if '--target-file' in argv else 'implicit'


def no_target_given(recipe, argv):
    """no target argument, no target file and no standard input to take one from: the target is the empty default {} (what the
    CLI documents for an empty target, test_cli_blank), not something unreadable"""
    return recipe['malform'] == 'stdin-closed' and recipe.get('stdin_state') == 'none' and stdin_channel(argv) == 'implicit'


def judge(recipe, res, spec, target_text, where, argv=()):
    malform = recipe['malform']
    if malform is not None and no_target_given(recipe, list(argv)):
        malform, target_text = None, ''
    if malform is not None:
        # "an unreadable or malformed target yields a usage error rather than a result": a failing exit that is no crash
        # (no exception leaves main(), no traceback), and neither a result nor the message of an evaluation on stdout
        bad_status = res.status not in (0, None)
        if not bad_status:
            raise Mismatch('bad-target-accepted', '%s: malformed/unreadable target (%s) but %r' % (where, malform, res))
        if res.status == 'exception' or 'Traceback (most recent call last)' in res.err:
            raise Mismatch('bad-target-not-usage-error', '%s: expected a usage error, got exception %s (%s)'
                           % (where, res.exc, res.err.strip()[-300:]))
        if res.out.strip().startswith(('{', '[', '"')) or res.out.strip() in ('null', 'true', 'false'):
            raise Mismatch('bad-target-result-printed', '%s: a result was printed: %r' % (where, res.out[:200]))
        if res.out.strip():
            raise Mismatch('bad-target-evaluated', '%s: a usage error prints nothing on stdout, got %r' % (where, res.out[:200]))
        return 'usage-error'
    # what the loader of that format makes of the text is the target the library sees
    value = recipe['target']
    if target_text == '' or not target_text:
        value = {}
    exp = expected_output(recipe, spec, value)
    if exp[0] == 'ok':
        if res.status not in (0, None) or res.out != exp[1]:
            raise Mismatch('wrong-output', '%s: expected status 0 and stdout %r, got %r' % (where, exp[1], res))
        return 'ok'
    if res.status != 1:
        raise Mismatch('glomerror-status', '%s: library raises %s, expected exit status 1, got %r' % (where, exp[1], res))
    if not res.out.startswith(exp[1]):
        raise Mismatch('glomerror-message', '%s: output should name %s, got %r' % (where, exp[1], res.out[:200]))
    return 'glomerror'


def nontrivial(recipe):
    s = recipe['spec']
    deep = s[0] != 's' and any(x[0] != 's' for x in ([v for _, v in s[1]] if s[0] == 'd' else ([s[1]] if s[0] == 'l' else s[1])))
    return deep or recipe['tsource'] != 'argv' or recipe['ssource'] != 'argv' or recipe['indent'] is not None or recipe['scalar']


def label_malform(recipe, argv, ctx, decoding, kind):
    malform = recipe['malform']
    if malform is None:
        return
    ctx.label('malform-' + malform)
    if malform == 'undecodable-stdin':
        ctx.label('undecodable-stdin-' + stdin_channel(argv), 'undecodable-stdin-' + str(decoding), 'undecodable-stdin-at-' + recipe['bad_where'])
    elif malform == 'undecodable-arg':
        if not any(0xdc80 <= ord(c) <= 0xdcff for c in argv[-1]) or len(argv) < 2 or argv[-2].startswith('-'):
            raise HarnessBug('undecodable-arg: the last of two positional arguments should carry the bytes: %r' % (argv,))
        ctx.label('undecodable-arg-at-' + recipe['bad_where'])
        if decoding in PROCESS_ENVS:
            ctx.label('undecodable-arg-' + decoding)
        if recipe['bad_where'] == 'string':
            ctx.label('undecodable-arg-string-in-' + recipe['tformat'])
    elif malform == 'stdin-closed':
        ctx.label('stdin-closed-' + stdin_channel(argv), 'stdin-closed-state-' + recipe['stdin_state'])
        if kind != 'usage-error':
            ctx.label('stdin-closed-no-target-' + kind)         # (the empty default was evaluated)
    elif malform == 'undecodable-spec-file':
        if '--spec-file' not in argv:
            raise HarnessBug('undecodable-spec-file without --spec-file: %r' % (argv,))
        ctx.label('undecodable-spec-file-at-' + recipe['bad_where'])


def check_cli(recipe, ctx):
    tmp = tempfile.mkdtemp(prefix='glomcli_')
    try:
        argv, stdin_text, spec, target_text = make_invocation(recipe, tmp)
        stdin_errors = recipe.get('stdin_errors', 'strict')
        stdin_state = recipe.get('stdin_state', 'open') if recipe['malform'] == 'stdin-closed' else 'open'
        where = 'glom %s%s%s' % (' '.join(repr(a) for a in argv),
                                 (' <<< %r (stdin errors=%s)' % (stdin_text, stdin_errors)) if stdin_text is not None else '',
                                 {'open': '', 'none': ' (sys.stdin is None)', 'closed': ' (sys.stdin is a closed stream)'}[stdin_state])
        res = run_inprocess(argv, stdin_text, stdin_errors, stdin_state)
        kind = judge(recipe, res, spec, target_text, where, argv)
    finally:
        shutil.rmtree(tmp, ignore_errors=True)
    ctx.label('outcome-' + kind, 'tformat-' + recipe['tformat'], 'tsource-' + recipe['tsource'], 'sformat-' + recipe['sformat'])
    label_malform(recipe, argv, ctx, stdin_errors, kind)
    ctx.nontrivial(nontrivial(recipe))
    ctx.outcome([argv, kind])


def check_process(recipe, ctx):
    tmp = tempfile.mkdtemp(prefix='glomcli_')
    try:
        argv, stdin_text, spec, target_text = make_invocation(recipe, tmp)
        penv = recipe.get('penv')
        stdin_closed = recipe['malform'] == 'stdin-closed'
        if stdin_closed and recipe.get('stdin_state') != 'none':
            # a real process has no closed stream object: descriptor 0 is closed and the interpreter sets sys.stdin to None
            recipe = dict(recipe, stdin_state='none')
        where = '%spython -m glom %s%s%s' % (''.join('%s=%s ' % kv for kv in sorted(PROCESS_ENVS[penv].items())) if penv else '',
                                             ' '.join(repr(a) for a in argv), (' <<< %r' % stdin_text) if stdin_text is not None else '',
                                             ' <&-' if stdin_closed else '')
        res = run_subprocess(argv, stdin_text, tmp, penv, stdin_closed)
        kind = judge(recipe, res, spec, target_text, where, argv)
    finally:
        shutil.rmtree(tmp, ignore_errors=True)
    ctx.label('outcome-' + kind, 'tsource-' + recipe['tsource'])
    label_malform(recipe, argv, ctx, penv, kind)
    ctx.nontrivial(nontrivial(recipe))
    ctx.outcome([argv, kind])


# ---------------------------------------------------------------------------
# hostile spec texts

CANARY = {'hits': 0}


def _canary(*a, **kw):
    CANARY['hits'] += 1
    return 'a'


def plant_canary():
    builtins.__dict__['verif_canary'] = _canary


GET_BUILTINS = ("[c for c in ().__class__.__base__.__subclasses__() if c.__name__ == 'catch_warnings'][0]()"
                "._module.__builtins__")

HOSTILE_TEMPLATES = [
    "(verif_canary())",
    "[verif_canary()]",
    "{'a': verif_canary()}",
    "(lambda: verif_canary())()",
    "[verif_canary() for _ in [1]]",
    "{k: verif_canary() for k in 'a'}",
    "(verif_canary(), 'a')",
    "{'x': (lambda f=verif_canary: f())()}",
    "'a' if verif_canary() else 'b'",
    "'%s' % verif_canary()",
    "''.join([verif_canary()])",
    "[1].__class__.__name__ and verif_canary()",
    "(" + GET_BUILTINS + "['verif_canary']())",
    "[" + GET_BUILTINS + "['verif_canary']()]",
    "{'a': ().__class__.__base__.__subclasses__()}",
    "(__import__('builtins').verif_canary())",
    "[x for x in [verif_canary]][0]()",
    "'a'.__class__('a') + verif_canary()",
    "(1).__add__(verif_canary() and 1)",
    "[*map(verif_canary, [1])]",
    "{**{'a': verif_canary()}}",
    "(yield verif_canary())",
    "[(verif_canary(), 'a')[1]]",
    "'a'[verif_canary() and 0:]",
    "verif_canary()",                       # bare text: a path string, never evaluated
    "verif_canary().a",
    "a.b if verif_canary() else c",
]


def gen_hostile(draw):
    t = draw(st.sampled_from(HOSTILE_TEMPLATES))
    k = draw(st.sampled_from(range(6)))
    if k == 0:
        t = '[' + t + ']' if t[0] in '([{\'"' else t
    elif k == 1:
        t = "{'out': " + t + "}" if t[0] in '([{\'"' else t
    elif k == 2:
        t = "(" + t + ", 'a')" if t[0] in '([{\'"' else t
    elif k == 3:
        t = ' ' + t if False else t
    via = draw(st.sampled_from(['argv', 'argv', 'file', 'explicit-format']))
    return {'text': t, 'via': via, 'target': {'a': 'A', 'b': {'a': 1}}}


def differential(text, target):
    """what the default spec format may do with this text (never: execute it)"""
    if text[0] not in ('"', "'", "[", "{", "("):
        spec = text
    else:
        try:
            spec = ast.literal_eval(text)
        except Exception:
            return ('reject',)
    try:
        result = glom.glom(target, spec)
    except GlomError as e:
        return ('glomerror', type(e).__name__)
    except Exception:
        return ('reject',)
    try:
        return ('ok', json.dumps(result, indent=2, sort_keys=True) + '\n')
    except Exception:
        return ('reject',)


def check_hostile(recipe, ctx):
    plant_canary()
    text, target = recipe['text'], recipe['target']
    before = CANARY['hits']
    tmp = tempfile.mkdtemp(prefix='glomcli_')
    try:
        if recipe['via'] == 'file':
            sp = os.path.join(tmp, 'spec.txt')
            with open(sp, 'w') as f:
                f.write(text)
            argv = ['--spec-file', sp, '--target-file', '-']
            res = run_inprocess(argv, json.dumps(target))
        elif recipe['via'] == 'explicit-format':
            argv = ['--spec-format', 'python', text, json.dumps(target)]
            res = run_inprocess(argv, None)
        else:
            argv = [text, json.dumps(target)]
            res = run_inprocess(argv, None)
    finally:
        shutil.rmtree(tmp, ignore_errors=True)
    where = 'glom %s' % ' '.join(repr(a) for a in argv)
    if CANARY['hits'] != before:
        raise Mismatch('spec-executed', '%s: the spec text was executed (canary called %d times)' % (where, CANARY['hits'] - before))
    exp = differential(text, target)
    ctx.label('diff-' + exp[0], 'via-' + recipe['via'])
    ctx.nontrivial(True)
    if exp[0] == 'ok':
        if res.status not in (0, None) or res.out != exp[1]:
            raise Mismatch('hostile-wrong-output', '%s: literal spec, expected %r, got %r' % (where, exp[1], res))
    elif exp[0] == 'glomerror':
        if res.status != 1 or not res.out.startswith(exp[1]):
            raise Mismatch('hostile-wrong-output', '%s: expected %s with status 1, got %r' % (where, exp[1], res))
    else:
        if res.status in (0, None):
            raise Mismatch('non-literal-accepted', '%s: not a Python literal, but the CLI exited 0 with %r' % (where, res.out[:200]))
        if res.out.strip():
            raise Mismatch('non-literal-result-printed', '%s: not a Python literal, but something was printed: %r' % (where, res.out[:200]))
    ctx.outcome([text[:80], exp[0]])


SUBS = [
    Sub('cli', check_cli, gen=gen_cli, quick=3000, thorough=10000,
        floors={'outcome-ok': 0.25, 'outcome-glomerror': 0.03, 'outcome-usage-error': 0.05, 'tformat-toml': 0.02, 'tformat-yaml': 0.07,
                'malform-undecodable-stdin': 0.03, 'undecodable-stdin-dash-positional': 0.007, 'undecodable-stdin-target-file-dash': 0.007,
                'undecodable-stdin-implicit': 0.007, 'undecodable-stdin-strict': 0.014, 'undecodable-stdin-surrogateescape': 0.014,
                'undecodable-stdin-at-string': 0.009,
                'malform-undecodable-arg': 0.015, 'undecodable-arg-at-string': 0.007, 'undecodable-arg-string-in-json': 0.004,
                'malform-stdin-closed': 0.018, 'stdin-closed-dash-positional': 0.004, 'stdin-closed-target-file-dash': 0.0045,
                'stdin-closed-implicit': 0.0035, 'stdin-closed-state-none': 0.009, 'stdin-closed-state-closed': 0.003,
                'stdin-closed-no-target-ok': 0.002, 'malform-undecodable-spec-file': 0.018}),
    Sub('hostile', check_hostile, gen=gen_hostile, quick=1200, thorough=4000, floors={'diff-reject': 0.5}),
    Sub('process', check_process, gen=gen_process, quick=64, thorough=128, floors={'malform-undecodable-stdin': 0.04}),
    Sub('process-stdin', check_process, enum=enum_process_stdin,        # (enumerated: each channel / configuration is exactly 1/3)
        floors={'undecodable-stdin-dash-positional': 0.15, 'undecodable-stdin-target-file-dash': 0.15, 'undecodable-stdin-implicit': 0.15,
                'undecodable-stdin-C': 0.15, 'undecodable-stdin-C.UTF-8': 0.15, 'undecodable-stdin-ioenc-strict': 0.15}),
    Sub('process-arg', check_process, enum=enum_process_arg,
        floors={'malform-undecodable-arg': 0.5, 'undecodable-arg-string-in-json': 0.05, 'undecodable-arg-string-in-toml': 0.05,
                'undecodable-arg-C': 0.15, 'undecodable-arg-C.UTF-8': 0.15, 'undecodable-arg-ioenc-strict': 0.15}),
    Sub('process-nostdin', check_process, enum=enum_process_nostdin,       # (channels: 1/9, 2/9 and 6/9 in both tiers)
        floors={'malform-stdin-closed': 0.5, 'stdin-closed-dash-positional': 0.05, 'stdin-closed-target-file-dash': 0.1,
                'stdin-closed-implicit': 0.3, 'stdin-closed-no-target-ok': 0.2, 'stdin-closed-no-target-glomerror': 0.1}),
    Sub('process-specfile', check_process, enum=enum_process_specfile,
        floors={'malform-undecodable-spec-file': 0.5, 'undecodable-spec-file-at-string': 0.12, 'undecodable-spec-file-at-only': 0.12}),
    fuzzrun.fuzz_sub('fuzz-spec-text', 'c19-spec-text', runs=20000, campaigns=4,
                     corpus=os.path.join(boot.VERIF, 'fuzz', 'corpus', 'c19-spec-text'), replay_sub='hostile'),
]
