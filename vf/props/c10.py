"""C10 — M, And, Or, Not, Switch and Check decide like the boolean expressions denoted.

Sub-checks
  bool     combinator trees (depth <= 4) over atoms {M op c, c op M, M(T[k]) op c, bare M, M(T[k]),
           type, literal, logging predicate, Val, T access, failing T access}, built with constructors
           (with defaults) or with & | ~; evaluated under Match(...)
  switch   Switch with 1-4 cases (list and dict form), key specs = small combinator trees, value specs
           = logging probes, with and without default
  checkkw  Check with every combination of type / instance_of / equal_to / one_of / validate / default /
           sub-spec over typed targets

Oracle: refbool() - Python's own and/or/not over the atoms' truth, short-circuit order observed through logs.
"""
from hypothesis import strategies as st

import glom
from glom import (Match, MatchError, GlomError, M, And, Or, Not, T, Val, Switch, Check, CheckError,
                  PathAccessError)

from ..runner import Sub, Mismatch
from .. import targets as tg

PROPERTY = 'C10'
RULE = ('bool: combinator trees of depth <= 4 over <= 6 atoms, built by constructor (And/Or with default) or by the '
        '& | ~ operators, on targets drawn from a pool chosen so that atoms take both truth values; '
        'switch: 1-4 cases with logging value probes; checkkw: all keyword combinations of Check. '
        'Non-trivial = >= 2 combinators, or an observed short-circuit (a child that must not run), or a default used.')
ASSUMPTIONS = [
    'atom truth is computed with the Python comparison itself; a comparison that raises must raise the same class from glom',
    'a failing T access inside a tree counts as "did not pass" for an enclosing Or/Not/Switch key and surfaces as PathAccessError at the root',
    'a validator that raises counts as a failed check (Check docstring); Not has no default',
]

TARGETS = [['i', 0], ['i', 1], ['i', 2], ['i', 5], ['i', -1], ['s', 'a'], ['s', ''], ['none'],
           ['dict', [['k', ['i', 1]]]], ['dict', [['k', ['i', 0]]]], ['dict', []], ['list', [['i', 1]]], ['list', []],
           ['f', 1.5], ['b', True]]
TYPES = {'int': int, 'str': str, 'dict': dict, 'list': list, 'object': object, 'float': float, 'bool': bool}
OPS = ['==', '!=', '>', '<', '>=', '<=']


class LogPred(object):
    """logging predicate (a plain callable: match mode calls it and tests truthiness)"""
    def __init__(self, ident, result, log):
        self.ident, self.result, self.log = ident, result, log
        self.__name__ = 'pred%s' % ident

    def __call__(self, t):
        self.log.append(('pred', self.ident))
        return self.result

    def __repr__(self):
        return 'pred%s' % self.ident


class AnonPred(object):
    """a predicate object WITHOUT a __name__ (like functools.partial or operator.methodcaller objects)"""
    def __init__(self, ident, result, log):
        self.ident, self.result, self.log = ident, result, log

    def __call__(self, t):
        self.log.append(('pred', self.ident))
        return self.result

    def __repr__(self):
        return 'anonpred%s' % self.ident


class Probe(object):
    """logging spec (has glomit, so it is evaluated the same way in every mode)"""
    def __init__(self, ident, log, fail=False):
        self.ident, self.log, self.fail = ident, log, fail

    def glomit(self, target, scope):
        self.log.append(('probe', self.ident))
        if self.fail:
            raise MatchError('probe {0} fails', self.ident)
        return ('value-of', self.ident)

    def __repr__(self):
        return 'Probe(%s)' % self.ident


# ---------------------------------------------------------------------------
# bool trees

def gen_atom(draw, counter):
    k = draw(st.integers(0, 14))
    if k == 14:
        return gen_mm(draw)
    if k <= 2:
        return ['m', draw(st.sampled_from(OPS)), draw(st.sampled_from([['i', 0], ['i', 1], ['i', 2], ['s', 'a']]))]
    if k == 3:
        return ['rm', draw(st.sampled_from(OPS)), draw(st.sampled_from([['i', 0], ['i', 1], ['i', 2]]))]
    if k == 4:
        return ['mt', 'k', draw(st.sampled_from(OPS)), ['i', draw(st.integers(0, 1))]]
    if k == 5:
        return ['M']
    if k == 6:
        return ['MT', draw(st.sampled_from(['k', 0]))]
    if k == 7:
        return ['type', draw(st.sampled_from(sorted(TYPES)))]
    if k == 8:
        return ['lit', draw(st.sampled_from(TARGETS[:8]))]
    if k <= 10:
        counter[0] += 1
        return ['pred', counter[0], draw(st.booleans()), draw(st.sampled_from(['named', 'named', 'anon']))]
    if k == 11:
        return ['val', ['i', draw(st.integers(7, 9))]]
    if k == 12:
        return ['t', draw(st.sampled_from(['k', 0]))]
    return ['tfail']


def gen_tree(draw, d, counter, ops_mode):
    if d <= 0 or draw(st.integers(0, 9)) < 3:
        if ops_mode:
            # operands of & | ~ must be M-expressions or combinators
            k = draw(st.integers(0, 3))
            if k == 3:
                return gen_mm(draw)
            if k == 0:
                return ['m', draw(st.sampled_from(OPS)), draw(st.sampled_from([['i', 0], ['i', 1], ['i', 2]]))]
            if k == 1:
                return ['mt', 'k', draw(st.sampled_from(OPS)), ['i', draw(st.integers(0, 1))]]
            return ['M']
        return gen_atom(draw, counter)
    kind = draw(st.sampled_from(['and', 'or', 'not', 'and', 'or']))
    if kind == 'not':
        if draw(st.sampled_from(range(3))) == 0:
            # an even number of negations around a child whose result is not the target
            inner = ['and', [['M'], ['val', ['i', draw(st.integers(7, 9))]]]] if draw(st.booleans()) else gen_tree(draw, d - 1, counter, ops_mode)
            return ['not', ['not', inner]]
        return ['not', gen_tree(draw, d - 1, counter, ops_mode)]
    n = draw(st.integers(1, 3)) if not ops_mode else draw(st.integers(2, 3))
    kids = [gen_tree(draw, d - 1, counter, ops_mode) for _ in range(n)]
    # (in ops mode a node with a default is built by its constructor and then combined by & / |)
    if kind in ('and', 'or') and draw(st.integers(0, 4)) == 0:
        dflt = draw(st.sampled_from([['lit', ['s', 'dflt']], ['T'], ['lit', ['none']], ['list-T']]))
        return [kind, kids, dflt]
    if ops_mode and kind == 'and' and kids[1][0] in ('m', 'mt', 'mm', 'M') and draw(st.sampled_from(range(3))) == 0:
        # <plain thing> & <M expression>: Python falls back to the M expression's reflected __rand__
        counter[0] += 1
        kids[0] = draw(st.sampled_from([['type', 'int'], ['type', 'str'], ['val', ['i', 7]], ['lit', ['i', 1]], ['pred', counter[0], True], ['pred', counter[0], False]]))
    elif ops_mode and not ops_mode_ok(kids[0]):
        kids[0] = ['M']
    if ops_mode and ops_mode_ok(kids[0]) and draw(st.integers(0, 3)) == 0:
        # right operand may be a plain type / literal / Val: And(M-thing, int)
        kids[-1] = draw(st.sampled_from([['type', 'int'], ['type', 'str'], ['val', ['i', 7]], ['lit', ['i', 1]]]))
    return [kind, kids]


def ops_mode_ok(t):
    return t[0] in ('m', 'mt', 'mm', 'M', 'and', 'or', 'not')


def gen_bool(draw):
    counter = [0]
    ops_mode = draw(st.booleans())
    tree = gen_tree(draw, draw(st.integers(1, 4)), counter, ops_mode)
    return {'tree': tree, 'target': draw(st.sampled_from(TARGETS)), 'build': 'ops' if ops_mode else 'ctor'}


def build_default(d):
    if d[0] == 'T':
        return T
    if d[0] == 'list-T':
        return [T, 'x']
    return tg.build(d[1]).obj


def ref_default(d, target):
    if d[0] == 'T':
        return target
    if d[0] == 'list-T':
        return [target, 'x']
    return tg.build(d[1]).obj


def gen_mm(draw):
    # both sides are M-things: M op M(T[k]), M(T[k]) op M, M(T[k]) op M(T[0]) ...
    sides = [draw(st.sampled_from(['M', 'k', 0])) for _ in range(2)]
    if sides == ['M', 'M']:
        sides[draw(st.integers(0, 1))] = 'k'
    return ['mm', sides[0], draw(st.sampled_from(OPS)), sides[1]]


def cmp_expr(lhs, op, v):
    return {'==': lhs == v, '!=': lhs != v, '>': lhs > v, '<': lhs < v, '>=': lhs >= v, '<=': lhs <= v}[op]


def build_tree(t, log, mode):
    tag = t[0]
    if tag == 'm':
        return cmp_expr(M, t[1], tg.build(t[2]).obj)
    if tag == 'rm':
        v = tg.build(t[2]).obj
        return {'==': v == M, '!=': v != M, '>': v > M, '<': v < M, '>=': v >= M, '<=': v <= M}[t[1]]
    if tag == 'mt':
        return cmp_expr(M(T[t[1]]), t[2], tg.build(t[3]).obj)
    if tag == 'mm':
        side = lambda x: M if x == 'M' else M(T[x])
        return cmp_expr(side(t[1]), t[2], side(t[3]))
    if tag == 'M':
        return M
    if tag == 'MT':
        return M(T[t[1]])
    if tag == 'type':
        return TYPES[t[1]]
    if tag == 'lit':
        return tg.build(t[1]).obj
    if tag == 'pred':
        return (AnonPred if len(t) > 3 and t[3] == 'anon' else LogPred)(t[1], t[2], log)
    if tag == 'val':
        return Val(tg.build(t[1]).obj)
    if tag == 't':
        return T[t[1]]
    if tag == 'tfail':
        return T['nope']['deeper']
    if tag == 'not':
        c = build_tree(t[1], log, mode)
        return ~c if mode == 'ops' and hasattr(c, '__invert__') and not isinstance(c, type(T)) else Not(c)
    kids = [build_tree(c, log, mode) for c in t[1]]
    if mode == 'ops' and len(t) == 2:
        acc = kids[0]
        for k in kids[1:]:
            acc = (acc & k) if tag == 'and' else (acc | k)
        return acc
    kw = {}
    if len(t) > 2:
        kw['default'] = build_default(t[2])
    return (And if tag == 'and' else Or)(*kids, **kw)


class Rej(Exception):
    def __init__(self, why, access=False):
        Exception.__init__(self, why)
        self.why, self.access = why, access


class RefRaise(Exception):
    def __init__(self, exc):
        Exception.__init__(self, exc)
        self.exc = exc


def ref_cmp(lhs, op, v):
    try:
        ok = {'==': lambda: lhs == v, '!=': lambda: lhs != v, '>': lambda: lhs > v, '<': lambda: lhs < v,
              '>=': lambda: lhs >= v, '<=': lambda: lhs <= v}[op]()
    except Exception as e:
        raise RefRaise(e)
    return ok


MIRROR = {'==': '==', '!=': '!=', '>': '<', '<': '>', '>=': '<=', '<=': '>='}


def refbool(t, target, log):
    """value the tree yields, or Rej; log receives the predicates that must run, in order"""
    tag = t[0]
    if tag == 'm':
        if ref_cmp(target, t[1], tg.build(t[2]).obj):
            return target
        raise Rej('cmp')
    if tag == 'rm':
        # c op M  is the Python expression  c op target
        v = tg.build(t[2]).obj
        if ref_cmp(v, t[1], target):
            return target
        raise Rej('cmp')
    if tag in ('mt', 'MT', 't'):
        try:
            sub = target[t[1]]
        except (KeyError, IndexError, TypeError):
            raise Rej('access', True)
        if tag == 't':
            return sub
        if tag == 'MT':
            if sub:
                return target
            raise Rej('falsy')
        if ref_cmp(sub, t[2], tg.build(t[3]).obj):
            return target
        raise Rej('cmp')
    if tag == 'mm':
        vals = []
        for x in (t[1], t[3]):
            if x == 'M':
                vals.append(target)
            else:
                try:
                    vals.append(target[x])
                except (KeyError, IndexError, TypeError):
                    raise Rej('access', True)
        if ref_cmp(vals[0], t[2], vals[1]):
            return target
        raise Rej('cmp')
    if tag == 'M':
        if target:
            return target
        raise Rej('falsy')
    if tag == 'type':
        if isinstance(target, TYPES[t[1]]):
            return target
        raise Rej('type')
    if tag == 'lit':
        if target == tg.build(t[1]).obj:
            return target
        raise Rej('eq')
    if tag == 'pred':
        log.append(('pred', t[1]))
        if t[2]:
            return target
        raise Rej('pred')
    if tag == 'val':
        return tg.build(t[1]).obj
    if tag == 'tfail':
        raise Rej('access', True)
    if tag == 'not':
        try:
            refbool(t[1], target, log)
        except Rej:
            return target
        raise Rej('not')
    try:
        if tag == 'and':
            res = target
            for c in t[1]:
                res = refbool(c, target, log)
            return res
        last = None
        for c in t[1]:
            try:
                return refbool(c, target, log)      # first passing child wins, later children never run
            except Rej as r:
                last = r
        raise last
    except Rej:
        if len(t) > 2:
            return ref_default(t[2], target)
        raise


def count_combinators(t):
    if t[0] in ('and', 'or'):
        return 1 + sum(count_combinators(c) for c in t[1])
    if t[0] == 'not':
        return 1 + count_combinators(t[1])
    return 0


def count_preds(t):
    if t[0] in ('and', 'or'):
        return sum(count_preds(c) for c in t[1])
    if t[0] == 'not':
        return count_preds(t[1])
    return 1 if t[0] == 'pred' else 0


def run(target, spec):
    """('ok', value) | ('rej', GlomError raised by glom itself) | ('raise', foreign exception, possibly wrapped)"""
    try:
        return ('ok', glom.glom(target, spec))
    except Exception as e:
        if isinstance(e, GlomError) and not type(e).__name__.startswith('GlomError.wrap('):
            return ('rej', e)
        return ('raise', e)


def values_equal(a, b):
    if type(a) is not type(b):
        return False
    return a == b


def check_bool(recipe, ctx):
    tree = recipe['tree']
    target = tg.build(recipe['target']).obj
    snap = tg.snapshot(target)
    rlog = []
    try:
        exp = ('ok', refbool(tree, target, rlog))
    except Rej as r:
        exp = ('rej', r)
    except RefRaise as rr:
        exp = ('raise', rr.exc)
    glog = []
    try:
        spec = build_tree(tree, glog, recipe['build'])
    except Exception as e:
        raise Mismatch('construction-raises', 'building %r by %s raised %r' % (tree, recipe['build'], e))
    ncomb = count_combinators(tree)
    ctx.label('exp-' + exp[0], 'build-' + recipe['build'])
    if "'mm'" in repr(tree):
        ctx.label('m-on-both-sides')
    short = len(rlog) < count_preds(tree)
    if short:
        ctx.label('short-circuit')
    ctx.nontrivial(ncomb >= 2 or short or 'dflt' in repr(tree))
    where = 'spec=%r target=%r' % (spec, target)
    got = run(target, Match(spec))
    if exp[0] == 'raise':
        if got[0] != 'raise' or not isinstance(got[1], type(exp[1])):
            raise Mismatch('comparison-error', '%s: the Python comparison raises %r; glom: %r' % (where, exp[1], got))
        ctx.outcome('raise')
        return
    if got[0] == 'raise':
        raise Mismatch('unexpected-exception-class', '%s: expected %s, glom raised %s: %r'
                       % (where, exp[0], type(got[1]).__name__, got[1]))
    if exp[0] == 'ok':
        if got[0] != 'ok':
            raise Mismatch('false-reject', '%s: expression is true (yields %r) but glom raised %s: %s'
                           % (where, exp[1], type(got[1]).__name__, got[1].args))
        if not values_equal(got[1], exp[1]):
            raise Mismatch('wrong-result', '%s: expected %r, got %r' % (where, exp[1], got[1]))
        if exp[1] is target and got[1] is not target and not isinstance(target, tg._ATOM):
            raise Mismatch('target-copied', '%s: must yield the target itself' % where)
    else:
        if got[0] == 'ok':
            raise Mismatch('false-accept', '%s: expression is false (%s) but glom returned %r' % (where, exp[1].why, got[1]))
        e = got[1]
        has_access = any(tok in repr(tree) for tok in ("'mt'", "'mm'", "'MT'", "'t'", "'tfail'"))
        if not has_access and not isinstance(e, MatchError):
            raise Mismatch('rejection-not-matcherror', '%s: rejected (%s) with %s: %r'
                           % (where, exp[1].why, type(e).__name__, e.args))
        if has_access and not isinstance(e, (MatchError, PathAccessError)):
            raise Mismatch('rejection-not-matcherror', '%s: rejected with %s' % (where, type(e).__name__))
    if glog != rlog:
        raise Mismatch('evaluation-order', '%s: predicates that must run, in order: %r; observed: %r' % (where, rlog, glog))
    d = tg.snapshot_diff(snap, tg.snapshot(target))
    if d:
        raise Mismatch('target-mutated', '%s: %s' % (where, d))
    ctx.outcome([exp[0], repr(spec)[:100]])


# ---------------------------------------------------------------------------
# combinators are values: a spec kept in a variable and re-used as an operand still denotes its own expression

def gen_reuse(draw):
    counter = [0]
    leaf = lambda: ['m', draw(st.sampled_from(OPS)), ['i', draw(st.integers(0, 3))]]
    base_kind = draw(st.sampled_from(['and', 'or']))
    base = [base_kind, [leaf() for _ in range(draw(st.integers(1, 3)))]]
    if draw(st.integers(0, 4)) == 0:
        base.append(['lit', ['s', 'dflt']])
    derived = [[draw(st.sampled_from(['and', 'or'])), leaf()] for _ in range(draw(st.integers(1, 3)))]
    return {'base': base, 'derived': derived, 'targets': [draw(st.sampled_from(TARGETS[:5])) for _ in range(3)]}


def check_reuse(recipe, ctx):
    base_r = recipe['base']
    base = build_tree(base_r, [], 'ops' if len(base_r) == 2 else 'ctor')
    repr0 = repr(base)
    ctx.nontrivial(len(recipe['derived']) >= 2)

    def outcome(spec, t):
        return run(t, Match(spec))[0:1] + ((run(t, Match(spec))[1],) if run(t, Match(spec))[0] == 'ok' else ())

    def expected(tree, t):
        try:
            return ('ok', refbool(tree, t, []))
        except Rej:
            return ('rej',)
        except RefRaise:
            return ('raise',)
    targets = [tg.build(t).obj for t in recipe['targets']]
    specs = []
    for op, leaf_r in recipe['derived']:
        leaf = build_tree(leaf_r, [], 'ops')
        d = (base & leaf) if op == 'and' else (base | leaf)
        specs.append((d, [op, [base_r, leaf_r]]))
    for t in targets:
        if outcome(base, t) != expected(base_r, t):
            raise Mismatch('operand-mutated', 'after deriving %r from it, base %s (now %r) on %r gives %r, expected %r'
                           % ([repr(d) for d, _ in specs], repr0, base, t, outcome(base, t), expected(base_r, t)))
        for d, tree in specs:
            if outcome(d, t) != expected(tree, t):
                raise Mismatch('operand-mutated', 'derived %r (base %s %s leaf) on %r gives %r, expected %r'
                               % (d, repr0, tree[0], t, outcome(d, t), expected(tree, t)))
    if repr(base) != repr0:
        raise Mismatch('operand-mutated', 'repr of the base changed from %s to %r' % (repr0, base))
    ctx.outcome([repr0, len(specs)])


# ---------------------------------------------------------------------------
# Switch

def gen_switch(draw):
    counter = [0]
    n = draw(st.integers(1, 4))
    cases = []
    for i in range(n):
        key = gen_tree(draw, draw(st.integers(0, 2)), counter, False)
        val = ['probe', i, draw(st.integers(0, 9)) == 0]
        cases.append([key, val])
    return {'cases': cases, 'form': draw(st.sampled_from(['list', 'dict'])),
            'default': draw(st.sampled_from([None, None, ['lit', ['s', 'dflt']], ['T'], ['list-T']])),
            'target': draw(st.sampled_from(TARGETS))}


def check_switch(recipe, ctx):
    target = tg.build(recipe['target']).obj
    rlog, glog = [], []
    # reference
    exp = None
    try:
        for key, val in recipe['cases']:
            try:
                refbool(key, target, rlog)
            except Rej:
                continue
            rlog.append(('probe', val[1]))
            if val[2]:
                exp = ('rej', 'value spec failed')
            else:
                exp = ('ok', ('value-of', val[1]))
            break
        else:
            if recipe['default'] is not None:
                exp = ('ok', ref_default(recipe['default'], target))
            else:
                exp = ('rej', 'no case')
    except RefRaise as rr:
        exp = ('raise', rr.exc)
    built = []
    for key, val in recipe['cases']:
        built.append((build_tree(key, glog, 'ctor'), Probe(val[1], glog, val[2])))
    cases = built
    if recipe['form'] == 'dict':
        try:
            as_dict = dict(built)
            if len(as_dict) == len(built):
                cases = as_dict
        except TypeError:
            pass               # unhashable key spec: list form only
    kw = {}
    if recipe['default'] is not None:
        kw['default'] = build_default(recipe['default'])
    spec = Switch(cases, **kw)
    ctx.label('exp-' + exp[0], 'form-' + recipe['form'], 'default' if kw else 'no-default')
    ctx.nontrivial(len(recipe['cases']) >= 2)
    where = 'spec=%r target=%r' % (spec, target)
    got = run(target, Match(spec))
    if exp[0] == 'raise':
        if got[0] != 'raise' or not isinstance(got[1], type(exp[1])):
            raise Mismatch('comparison-error', '%s: comparison raises %r; glom: %r' % (where, exp[1], got))
        return
    if got[0] == 'raise':
        raise Mismatch('unexpected-exception-class', '%s: %r' % (where, got[1]))
    if exp[0] == 'ok':
        if got[0] != 'ok' or not values_equal(got[1], exp[1]):
            raise Mismatch('switch-result', '%s: expected %r, got %r' % (where, exp[1], got))
    else:
        if got[0] == 'ok':
            raise Mismatch('switch-false-accept', '%s: %s, but glom returned %r' % (where, exp[1], got[1]))
        if exp[1] == 'no case' and not isinstance(got[1], MatchError):
            raise Mismatch('switch-rejection-class', '%s: no case matches; raised %s' % (where, type(got[1]).__name__))
    if glog != rlog:
        raise Mismatch('switch-evaluation', '%s: expected evaluation log %r, observed %r' % (where, rlog, glog))
    ctx.outcome([exp[0], repr(spec)[:100]])


# ---------------------------------------------------------------------------
# Check keyword combinations

class Validator(object):
    def __init__(self, name, f, log):
        self.__name__ = name
        self.f, self.log = f, log

    def __call__(self, t):
        self.log.append(self.__name__)
        return self.f(t)

    def __repr__(self):
        return self.__name__


VALIDATORS = {'is_pos': lambda t: isinstance(t, (int, float)) and t > 0, 'is_small': lambda t: isinstance(t, int) and t < 3,
              'always': lambda t: True, 'never': lambda t: False,
              # a partial validator: raises TypeError on targets that cannot be compared with 0 ("If one or more return
              # False or raise an exception, the Check will fail")
              'raw_pos': lambda t: t > 0}
CHECK_TARGETS = [['i', 0], ['i', 1], ['i', 5], ['s', 'a'], ['s', ''], ['b', True], ['f', 1.0], ['none'],
                 ['dict', [['k', ['i', 1]]]], ['dict', [['k', ['s', 'a']]]], ['list', [['i', 1]]]]


def gen_check(draw):
    opt = lambda s: draw(st.one_of(st.none(), s))
    r = {
        'type': opt(st.lists(st.sampled_from(['int', 'str', 'bool', 'float']), min_size=1, max_size=2, unique=True)),
        'instance_of': opt(st.lists(st.sampled_from(['int', 'str', 'object', 'float']), min_size=1, max_size=2, unique=True)),
        'equal_to': opt(st.sampled_from([['i', 1], ['s', 'a'], ['f', 1.0]])),
        'one_of': opt(st.lists(st.sampled_from([['i', 1], ['i', 5], ['s', 'a'], ['none']]), min_size=1, max_size=3, unique_by=repr)),
        'validate': opt(st.lists(st.sampled_from(sorted(VALIDATORS)), min_size=1, max_size=2, unique=True)),
        'validate_single': draw(st.booleans()),
        'instance_of_as': draw(st.sampled_from(['tuple', 'tuple', 'list'])),      # "a type or sequence of types"
        'default': draw(st.sampled_from([None, None, ['lit', ['s', 'dflt']], ['T'], ['list-T'], ['lit', ['none']]])),
        'sub': draw(st.sampled_from([None, None, 'k'])),
        'target': draw(st.sampled_from(CHECK_TARGETS)),
    }
    if r['equal_to'] is not None:
        r['one_of'] = None
    return r


def check_checkkw(recipe, ctx):
    target = tg.build(recipe['target']).obj
    log = []
    kw = {}
    if recipe['type']:
        ts = [TYPES[n] for n in recipe['type']]
        kw['type'] = ts[0] if len(ts) == 1 else ts
    if recipe['instance_of']:
        ts = [TYPES[n] for n in recipe['instance_of']]
        kw['instance_of'] = ts[0] if len(ts) == 1 else (list(ts) if recipe.get('instance_of_as') == 'list' else tuple(ts))
    if recipe['equal_to'] is not None:
        kw['equal_to'] = tg.build(recipe['equal_to']).obj
    if recipe['one_of'] is not None:
        kw['one_of'] = [tg.build(x).obj for x in recipe['one_of']]
    if recipe['validate']:
        vs = [Validator(n, VALIDATORS[n], log) for n in recipe['validate']]
        kw['validate'] = vs[0] if (len(vs) == 1 and recipe['validate_single']) else vs
    if recipe['default'] is not None:
        kw['default'] = build_default(recipe['default'])
    args = () if recipe['sub'] is None else (T[recipe['sub']],)
    try:
        spec = Check(*args, **kw)
    except Exception as e:
        raise Mismatch('check-construction', 'Check(%r, **%r) raised %r' % (args, kw, e))
    where = 'spec=%r target=%r' % (spec, target)
    # reference
    try:
        sub = target if recipe['sub'] is None else target[recipe['sub']]
        access_ok = True
    except (KeyError, IndexError, TypeError):
        access_ok = False
    failed = []
    if access_ok:
        if recipe['type'] and type(sub) not in [TYPES[n] for n in recipe['type']]:
            failed.append('type')
        vals = None
        if recipe['equal_to'] is not None:
            vals = [tg.build(recipe['equal_to']).obj]
        elif recipe['one_of'] is not None:
            vals = [tg.build(x).obj for x in recipe['one_of']]
        if vals is not None and sub not in vals:
            failed.append('value')
        if recipe['validate']:
            for n in recipe['validate']:
                try:
                    ok_ = VALIDATORS[n](sub)
                except Exception:
                    ok_ = False
                    ctx.label('validator-raises')
                if not ok_:
                    failed.append('validate:' + n)
        elif not kw or set(kw) <= {'default'}:
            if not sub:
                failed.append('truthy')
        if recipe['instance_of'] and not isinstance(sub, tuple(TYPES[n] for n in recipe['instance_of'])):
            failed.append('instance_of')
    ctx.label('pass' if access_ok and not failed else ('fail-%d' % min(len(failed), 3) if access_ok else 'access-fail'),
              'default' if recipe['default'] is not None else 'no-default')
    ctx.nontrivial(len([k for k in kw if k != 'default']) >= 2 or (failed and recipe['default'] is not None))
    try:
        got = ('ok', glom.glom(target, spec))
    except CheckError as e:
        got = ('check', e)
    except GlomError as e:
        got = ('glomerr', e)
    except Exception as e:
        raise Mismatch('check-unexpected-exception', '%s: %s: %r' % (where, type(e).__name__, e))
    if not access_ok:
        if got[0] != 'glomerr' or not isinstance(got[1], PathAccessError):
            raise Mismatch('check-access', '%s: sub-spec access fails, expected PathAccessError, got %r' % (where, got))
        return
    if not failed:
        if got[0] != 'ok' or got[1] is not target and got[1] != target:
            raise Mismatch('check-false-reject', '%s: all conditions hold, got %r' % (where, got))
        if got[1] is not target and not isinstance(target, tg._ATOM):
            raise Mismatch('check-not-passthrough', '%s: must pass the original target through' % where)
    elif recipe['default'] is not None:
        expd = ref_default(recipe['default'], sub)
        if got[0] != 'ok' or not values_equal(got[1], expd):
            raise Mismatch('check-default', '%s: failed %r, expected default %r, got %r' % (where, failed, expd, got))
    else:
        if got[0] != 'check':
            raise Mismatch('check-false-accept', '%s: conditions failed %r, got %r' % (where, failed, got))
        if len(got[1].msgs) != len(failed):
            raise Mismatch('check-error-list', '%s: failed conditions %r, CheckError lists %r' % (where, failed, got[1].msgs))
    ctx.outcome([got[0], repr(spec)[:100]])


SUBS = [
    Sub('bool', check_bool, gen=gen_bool, quick=8000, thorough=30000,
        floors={'exp-ok': 0.2, 'exp-rej': 0.2, 'short-circuit': 0.02, 'build-ops': 0.2}),
    Sub('switch', check_switch, gen=gen_switch, quick=3000, thorough=10000, floors={'exp-ok': 0.2, 'exp-rej': 0.05}),
    Sub('checkkw', check_checkkw, gen=gen_check, quick=4000, thorough=15000, floors={'pass': 0.05, 'default': 0.2}),
    Sub('reuse', check_reuse, gen=gen_reuse, quick=800, thorough=4000),
]
