"""C10 — M, And, Or, Not, Switch and Check decide like the boolean expressions denoted.

Sub-checks
  bool     combinator trees (depth <= 4) over atoms {M op c, c op M, M(T[k]) op c, bare M, M(T[k]),
           type, literal, logging predicate, Val, T access, failing T access}, built with constructors
           (with defaults) or with & | ~; evaluated under Match(...)
  switch   Switch with 1-4 cases (list and dict form), key specs = small combinator trees, value specs
           = logging probes, with and without default
  checkkw  Check with every combination of type / instance_of / equal_to / one_of / validate / default /
           sub-spec over typed targets; one_of spelled as list / tuple / set / frozenset / dict / dict.keys() / a re-iterable
           without __len__ / a str; classes that are iterable themselves (Enum classes, a class with an iterable metaclass)
           as type / instance_of; membership tests that cannot be evaluated (unhashable target against a hashed container,
           non-str against a str, an == that raises), bare and below Or(check, Val) / Match(check, default=)
  checkreuse  ONE Check object whose one_of (and optionally type / instance_of / validate) was given as a one-shot
           iterable (iter([...]) / generator), evaluated on 2-4 targets in a row: every evaluation decides like the
           first one would
  reuse    a combinator kept in a variable and re-used as an operand still denotes its own expression

Oracle: refbool() - Python's own and/or/not over the atoms' truth, short-circuit order observed through logs.  A
comparison that Python cannot evaluate "is not true": the atom rejects, with MatchError - whatever the comparison raised:
TypeError ('a' > 0), decimal.InvalidOperation (a Decimal NaN in an ordering comparison), AttributeError (a value class with a
duck-typed __lt__ compared with a number), ValueError (a comparison result without a truth value), LookupError, RecursionError
(two self-containing lists), an exception class of the operand's own.  The same for the truth test of bare M / M(T-expr): a
value without a truth value (an array with several elements) is not true.  Check: a value for which the test of equal_to /
one_of cannot be evaluated is not shown to be equal to / one of the values: that condition fails (CheckError or the default).
"""
import enum
from decimal import Decimal

from hypothesis import strategies as st

import glom
from glom import (Match, MatchError, GlomError, M, And, Or, Not, T, Val, Switch, Check, CheckError,
                  PathAccessError)

from ..runner import Sub, Mismatch, HarnessBug
from .. import targets as tg

PROPERTY = 'C10'
RULE = ('bool: combinator trees of depth <= 4 over <= 6 atoms, built by constructor (And/Or with default) or by the '
        '& | ~ operators, on targets drawn from a pool chosen so that atoms take both truth values; '
        'switch: 1-4 cases with logging value probes; checkkw: all keyword combinations of Check, one_of in six container '
        'spellings, iterable classes as type arguments; checkreuse: one Check built from one-shot iterables, evaluated 2-4 times. '
        'Constructed classes: an ordering comparison Python cannot evaluate (TypeError) below Or / Not / a default / a Switch key; '
        'the same shapes around a comparison that raises something other than TypeError (Decimal NaN / sNaN, value classes with '
        'duck-typed comparison methods, a comparison result without truth value, self-containing lists), as M op c, c op M, '
        'M(T[k]) op c and M(T[k]) op M(T[0]); a bare M / M(T[k]) on a value whose truth test raises (array-like with several '
        'elements, __bool__ that raises / returns a non-bool, __len__ that raises) in the same shapes and as a Switch key; '
        'Check(one_of= / equal_to=) whose membership test cannot be evaluated: list / dict targets against set / frozenset / '
        'dict / keys, non-str targets against a str, pairs whose == raises (Decimal sNaN, value classes) as equal_to and in '
        'list / tuple / re-iterable one_of, a re-iterable one_of without __len__; each bare, with default and below '
        'Or(check, Val) / Match(check, default=); '
        'a one-element unindexable one_of that rejects without default; a bare Enum class as type / instance_of. '
        'Non-trivial = >= 2 combinators, or an observed short-circuit (a child that must not run), or a default used.')
ASSUMPTIONS = [
    'atom truth is computed with the Python comparison itself; a comparison that raises is "not true": the atom rejects with '
    'MatchError, so Or tries the next child, Not passes, defaults apply and Switch goes on to the next case; this holds for every '
    'Exception subclass the comparison (or the truth test of its result) raises, not only for TypeError',
    'Check(one_of=C) / Check(equal_to=v) on a target for which Python\'s own `target in C` / `target == v` raises (unhashable '
    'target against a set / dict, a non-str against a str, an == that raises): the value is not one of / equal to the values '
    'given, the condition fails like for any other value that is not listed - CheckError or the default, and an Or / Match '
    'around the Check reacts (class membership-raises; the first version accepted the escaping exception as well - F101)',
    'bare M / M(T-expr) on a value whose truth test raises: not true, the atom rejects (class no-truth-value, F102)',
    'one_of given as a str is only asked about single characters and non-str values ("in" on a str is a substring test: for '
    'longer or empty strings it differs from "one of the values the iterable yields"; the reference stops with a harness error '
    'if the two readings ever disagree)',
    'a failing T access inside a tree counts as "did not pass" for an enclosing Or/Not/Switch key and surfaces as PathAccessError at the root',
    'a validator that raises counts as a failed check (Check docstring); Not has no default',
]

TARGETS = [['i', 0], ['i', 1], ['i', 2], ['i', 5], ['i', -1], ['s', 'a'], ['s', ''], ['none'],
           ['dict', [['k', ['i', 1]]]], ['dict', [['k', ['i', 0]]]], ['dict', []], ['list', [['i', 1]]], ['list', []],
           ['f', 1.5], ['b', True]]
TYPES = {'int': int, 'str': str, 'dict': dict, 'list': list, 'object': object, 'float': float, 'bool': bool}
OPS = ['==', '!=', '>', '<', '>=', '<=']


# ---------------------------------------------------------------------------
# operands whose comparison raises something other than TypeError (and compares normally with their own kind)

class Version(object):
    """value class with the usual duck-typed ordering (self.n < other.n): AttributeError against a plain number; == and !=
    are object's own"""
    def __init__(self, n):
        self.n = n

    def __lt__(self, other):
        return self.n < other.n

    def __gt__(self, other):
        return self.n > other.n

    def __le__(self, other):
        return self.n <= other.n

    def __ge__(self, other):
        return self.n >= other.n

    def __repr__(self):
        return '%s(%r)' % (type(self).__name__, self.n)


class Money(Version):
    """the same with duck-typed == and != as well"""
    def __eq__(self, other):
        return self.n == other.n

    def __ne__(self, other):
        return self.n != other.n

    __hash__ = None


class NoTruth(object):
    def __bool__(self):
        raise ValueError('the truth value of this comparison is ambiguous')

    def __repr__(self):
        return 'NoTruth()'


class Ambig(object):
    """array-like: every comparison returns an object that has no truth value (ValueError when it is tested)"""
    def __init__(self, n):
        self.n = n

    def _cmp(self, other):
        return NoTruth()

    __eq__ = __ne__ = __lt__ = __gt__ = __le__ = __ge__ = _cmp
    __hash__ = None

    def __repr__(self):
        return 'Ambig(%r)' % self.n


class Grade(object):
    """ordered by a rank table; the other side may be a Grade or a rank name: KeyError for anything not in the table"""
    ORDER = {'low': 0, 'mid': 1, 'high': 2}

    def __init__(self, name):
        self.name = name

    def _ranks(self, other):
        return self.ORDER[self.name], self.ORDER[getattr(other, 'name', other)]

    def __eq__(self, other):
        a, b = self._ranks(other)
        return a == b

    def __ne__(self, other):
        a, b = self._ranks(other)
        return a != b

    def __lt__(self, other):
        a, b = self._ranks(other)
        return a < b

    def __gt__(self, other):
        a, b = self._ranks(other)
        return a > b

    def __le__(self, other):
        a, b = self._ranks(other)
        return a <= b

    def __ge__(self, other):
        a, b = self._ranks(other)
        return a >= b

    __hash__ = None

    def __repr__(self):
        return 'Grade(%r)' % self.name


class Incomparable(Exception):
    """an exception class of the operand's own, directly below Exception"""


class Strict(object):
    """compares with its own kind only and says so with its own exception class"""
    def __init__(self, n):
        self.n = n

    def _n(self, other):
        if type(other) is not Strict:
            raise Incomparable('Strict compared with %s' % type(other).__name__)
        return other.n

    def __eq__(self, other):
        return self.n == self._n(other)

    def __ne__(self, other):
        return self.n != self._n(other)

    def __lt__(self, other):
        return self.n < self._n(other)

    def __gt__(self, other):
        return self.n > self._n(other)

    def __le__(self, other):
        return self.n <= self._n(other)

    def __ge__(self, other):
        return self.n >= self._n(other)

    __hash__ = None

    def __repr__(self):
        return 'Strict(%r)' % self.n


class Arr(object):
    """array-like with numpy's rules: the truth value of an array with more than one element is ambiguous (ValueError when
    it is tested), one element: that element's, none: false; == and != compare element-wise and yield an Arr"""
    def __init__(self, items):
        self.items = list(items)

    def __len__(self):
        return len(self.items)

    def __bool__(self):
        if len(self.items) > 1:
            raise ValueError('the truth value of an array with more than one element is ambiguous')
        return bool(self.items and self.items[0])

    def __eq__(self, other):
        return Arr([x == other for x in self.items])

    def __ne__(self, other):
        return Arr([x != other for x in self.items])

    __hash__ = None

    def __repr__(self):
        return 'Arr(%r)' % (self.items,)


class BadTruth(object):
    """__bool__ does not return a bool: TypeError when the truth value is taken"""
    def __bool__(self):
        return 'yes'

    def __repr__(self):
        return 'BadTruth()'


class BadLen(object):
    """a container whose truth value goes through a __len__ that raises an exception class of its own"""
    def __len__(self):
        raise Incomparable('length not available')

    def __repr__(self):
        return 'BadLen()'


XCLASSES = {'ver': Version, 'money': Money, 'ambig': Ambig, 'grade': Grade, 'strict': Strict}
# values that have no truth value: bool(v) raises
NOTRUTH = [['arr', [1, 2]], ['arr', [0, 0]], ['arr', [0, 1, 2]], ['notruth'], ['badtruth'], ['badlen']]
# array-likes that do have one
ARR_TRUTH = [['arr', [1]], ['arr', [0]], ['arr', []]]


def uses_exotic(r):
    if isinstance(r, list):
        if r and isinstance(r[0], str) and (r[0] in XCLASSES or r[0] in ('dec', 'selflist', 'selfdict')):
            return True
        return any(uses_exotic(x) for x in r)
    return False


def bval(r):
    """value of a recipe: the grammar of vf.targets plus ["dec", text] / ["ver", n] / ["money", n] / ["ambig", n] /
    ["grade", name] / ["strict", n] / ["selflist"], ["selfdict"] (a list / dict that contains itself), ["arr", [ints]] /
    ["notruth"] / ["badtruth"] / ["badlen"] (values whose truth test raises, an Arr only with more than one element) and the plain containers
    ["xdict", [[key, R], ...]] / ["xlist", [R, ...]] around them.  Every call builds new objects."""
    tag = r[0]
    if tag == 'dec':
        return Decimal(r[1])
    if tag in XCLASSES:
        return XCLASSES[tag](r[1])
    if tag == 'arr':
        return Arr(r[1])
    if tag in ('notruth', 'badtruth', 'badlen'):
        return {'notruth': NoTruth, 'badtruth': BadTruth, 'badlen': BadLen}[tag]()
    if tag == 'selflist':
        l = []
        l.append(l)
        return l
    if tag == 'selfdict':
        d = {}
        d['k'] = d
        return d
    if tag == 'xdict':
        return dict((k, bval(v)) for k, v in r[1])
    if tag == 'xlist':
        return [bval(v) for v in r[1]]
    return tg.build(r).obj


class LogPred(object):
    """logging predicate (a plain callable: match mode calls it and tests truthiness)"""
    def __init__(self, ident, result, log):
        self.ident, self.result, self.log = ident, result, log
        self.__name__ = 'pred%s' % ident

    def __call__(self, t):
        self.log.append(('pred', self.ident))
        return self.result

    def __repr__(self):
        return 'pred%s' % self.ident


class AnonPred(object):
    """a predicate object WITHOUT a __name__ (like functools.partial or operator.methodcaller objects)"""
    def __init__(self, ident, result, log):
        self.ident, self.result, self.log = ident, result, log

    def __call__(self, t):
        self.log.append(('pred', self.ident))
        return self.result

    def __repr__(self):
        return 'anonpred%s' % self.ident


class Probe(object):
    """logging spec (has glomit, so it is evaluated the same way in every mode)"""
    def __init__(self, ident, log, fail=False):
        self.ident, self.log, self.fail = ident, log, fail

    def glomit(self, target, scope):
        self.log.append(('probe', self.ident))
        if self.fail:
            raise MatchError('probe {0} fails', self.ident)
        return ('value-of', self.ident)

    def __repr__(self):
        return 'Probe(%s)' % self.ident


# ---------------------------------------------------------------------------
# bool trees

def gen_atom(draw, counter, lit=True):
    k = draw(st.integers(0, 14))
    if k == 8 and not lit:
        return ['type', draw(st.sampled_from(sorted(TYPES)))]
    if k == 14:
        return gen_mm(draw)
    if k <= 2:
        return ['m', draw(st.sampled_from(OPS)), draw(st.sampled_from([['i', 0], ['i', 1], ['i', 2], ['s', 'a']]))]
    if k == 3:
        return ['rm', draw(st.sampled_from(OPS)), draw(st.sampled_from([['i', 0], ['i', 1], ['i', 2]]))]
    if k == 4:
        return ['mt', 'k', draw(st.sampled_from(OPS)), ['i', draw(st.integers(0, 1))]]
    if k == 5:
        return ['M']
    if k == 6:
        return ['MT', draw(st.sampled_from(['k', 0]))]
    if k == 7:
        return ['type', draw(st.sampled_from(sorted(TYPES)))]
    if k == 8:
        return ['lit', draw(st.sampled_from(TARGETS[:8]))]
    if k <= 10:
        counter[0] += 1
        return ['pred', counter[0], draw(st.booleans()), draw(st.sampled_from(['named', 'named', 'anon']))]
    if k == 11:
        return ['val', ['i', draw(st.integers(7, 9))]]
    if k == 12:
        return ['t', draw(st.sampled_from(['k', 0]))]
    return ['tfail']


def gen_nolit_atom(draw, counter):
    """atoms for targets whose own == may raise: no literal patterns (what a literal pattern does then is C09's subject)"""
    return gen_atom(draw, counter, lit=False)


def gen_tree(draw, d, counter, ops_mode, atoms=gen_atom):
    if d <= 0 or draw(st.integers(0, 9)) < 3:
        if ops_mode:
            # operands of & | ~ must be M-expressions or combinators
            k = draw(st.integers(0, 3))
            if k == 3:
                return gen_mm(draw)
            if k == 0:
                return ['m', draw(st.sampled_from(OPS)), draw(st.sampled_from([['i', 0], ['i', 1], ['i', 2]]))]
            if k == 1:
                return ['mt', 'k', draw(st.sampled_from(OPS)), ['i', draw(st.integers(0, 1))]]
            return ['M']
        return atoms(draw, counter)
    kind = draw(st.sampled_from(['and', 'or', 'not', 'and', 'or']))
    if kind == 'not':
        if draw(st.sampled_from(range(3))) == 0:
            # an even number of negations around a child whose result is not the target
            inner = ['and', [['M'], ['val', ['i', draw(st.integers(7, 9))]]]] if draw(st.booleans()) else gen_tree(draw, d - 1, counter, ops_mode, atoms)
            return ['not', ['not', inner]]
        return ['not', gen_tree(draw, d - 1, counter, ops_mode, atoms)]
    n = draw(st.integers(1, 3)) if not ops_mode else draw(st.integers(2, 3))
    kids = [gen_tree(draw, d - 1, counter, ops_mode, atoms) for _ in range(n)]
    # (in ops mode a node with a default is built by its constructor and then combined by & / |)
    if kind in ('and', 'or') and draw(st.integers(0, 4)) == 0:
        dflt = draw(st.sampled_from([['lit', ['s', 'dflt']], ['T'], ['lit', ['none']], ['list-T']]))
        return [kind, kids, dflt]
    if ops_mode and kind == 'and' and kids[1][0] in ('m', 'mt', 'mm', 'M') and draw(st.sampled_from(range(3))) == 0:
        # <plain thing> & <M expression>: Python falls back to the M expression's reflected __rand__
        counter[0] += 1
        kids[0] = draw(st.sampled_from([['type', 'int'], ['type', 'str'], ['val', ['i', 7]], ['lit', ['i', 1]], ['pred', counter[0], True], ['pred', counter[0], False]]))
    elif ops_mode and not ops_mode_ok(kids[0]):
        kids[0] = ['M']
    if ops_mode and ops_mode_ok(kids[0]) and draw(st.integers(0, 3)) == 0:
        # right operand may be a plain type / literal / Val: And(M-thing, int)
        kids[-1] = draw(st.sampled_from([['type', 'int'], ['type', 'str'], ['val', ['i', 7]], ['lit', ['i', 1]]]))
    return [kind, kids]


def ops_mode_ok(t):
    return t[0] in ('m', 'mt', 'mm', 'M', 'and', 'or', 'not')


# (a, b) for which Python cannot evaluate the ordering comparisons a op b and b op a: TypeError
INCOMPARABLE = [(['s', 'a'], ['i', 0]), (['s', ''], ['i', 2]), (['i', 1], ['s', 'a']), (['i', 0], ['s', 'a']),
                (['none'], ['i', 1]), (['dict', [['k', ['i', 1]]]], ['i', 0]), (['list', []], ['i', 1]), (['f', 1.5], ['s', 'a'])]
ORDERING = ['>', '<', '>=', '<=']
# (a, b, operators) for which a op b and b op a raise something OTHER than TypeError (or, NoTruth, yield a result whose truth
# test raises).  The table only steers the generator: what Python does with the pair is found out by the reference (ref_cmp)
# and the class labels are measured there.
RAISING_OTHER = {
    # a quiet Decimal NaN: decimal.InvalidOperation (an ArithmeticError) in ordering comparisons (== and != are evaluable);
    # a signalling NaN: in every comparison with a number
    'ArithmeticError': [(['dec', 'NaN'], ['i', 0], ORDERING), (['dec', 'NaN'], ['f', 1.5], ORDERING),
                        (['dec', 'NaN'], ['dec', '1.5'], ORDERING), (['dec', 'NaN'], ['dec', 'NaN'], ORDERING),
                        (['dec', 'NaN'], ['i', 2], ORDERING), (['dec', 'sNaN'], ['i', 1], OPS), (['dec', 'sNaN'], ['dec', '1.5'], OPS)],
    # duck-typed comparison methods (self.n < other.n)
    'AttributeError': [(['ver', 2], ['i', 3], ORDERING), (['ver', 2], ['s', 'a'], ORDERING), (['ver', 0], ['none'], ORDERING),
                       (['ver', 2], ['f', 1.5], ORDERING), (['money', 2], ['i', 2], OPS), (['money', 0], ['none'], OPS),
                       (['money', 1], ['s', 'a'], OPS)],
    # a comparison result without a truth value
    'ValueError': [(['ambig', 1], ['i', 1], OPS), (['ambig', 1], ['ambig', 1], OPS), (['ambig', 0], ['s', 'a'], OPS),
                   (['ambig', 2], ['none'], OPS)],
    # a table lookup: KeyError
    'LookupError': [(['grade', 'low'], ['s', 'zz'], OPS), (['grade', 'high'], ['i', 2], OPS), (['grade', 'mid'], ['none'], OPS)],
    # an exception class of the operand's own, directly below Exception
    'OwnException': [(['strict', 1], ['i', 1], OPS), (['strict', 0], ['s', 'a'], OPS), (['strict', 2], ['dec', '1.5'], OPS)],
    # two lists / dicts that contain themselves
    'RecursionError': [(['selflist'], ['selflist'], OPS), (['selfdict'], ['selfdict'], ['==', '!='])],
}
# values for free pairs around the same classes (most of them evaluable: these atoms take both truth values)
EXOTIC = [['dec', '1.5'], ['dec', '0'], ['dec', 'NaN'], ['ver', 2], ['ver', 3], ['money', 2], ['money', 3], ['grade', 'low'],
          ['grade', 'high'], ['strict', 1], ['strict', 2], ['ambig', 1]]
EXOTIC_OTHER = EXOTIC + [['i', 0], ['i', 2], ['f', 1.5], ['s', 'mid'], ['s', 'a'], ['none']]
# what may stand on the left of `c op M`: Python asks c's own method first, and a duck-typed one would look into the M object
# while the spec is being WRITTEN (Version(2) < M raises at once); numbers, strings, None and Decimals defer to M
REFLECTABLE = ('i', 'f', 's', 'none', 'dec')
ATOM_FORMS = ['m', 'm', 'rm', 'mt', 'mt', 'mm']


def gen_pair(draw, family):
    """(a, op, b): a pair of value recipes and an operator; family 'typeerror' / 'other': a op b raises (by the tables
    above); 'free': anything over the exotic value classes"""
    if family == 'typeerror':
        a, b = draw(st.sampled_from(INCOMPARABLE))
        op = draw(st.sampled_from(ORDERING))
    elif family == 'other':
        a, b, ops = draw(st.sampled_from(RAISING_OTHER[draw(st.sampled_from(sorted(RAISING_OTHER)))]))
        op = draw(st.sampled_from(ops))
    else:
        a, b, op = draw(st.sampled_from(EXOTIC)), draw(st.sampled_from(EXOTIC_OTHER)), draw(st.sampled_from(OPS))
    if draw(st.booleans()):
        a, b = b, a
    return a, op, b


def gen_cmp_atom(draw, family, forms=ATOM_FORMS):
    """(target, atom) such that the atom denotes the Python comparison a op b of gen_pair, spelled as M op b, a op M (the
    target is b), M(T[key]) op b or M(T['k']) op M(T[0])"""
    a, op, b = gen_pair(draw, family)
    form = draw(st.sampled_from(forms))
    if form == 'rm' and a[0] not in REFLECTABLE:
        form = 'm'
    if form == 'm':
        return a, ['m', op, b]
    if form == 'rm':
        return b, ['rm', op, a]
    if form == 'mt':
        if draw(st.booleans()):
            return ['xdict', [['k', a]]], ['mt', 'k', op, b]
        return ['xlist', [a]], ['mt', 0, op, b]
    return ['xdict', [['k', a], [0, b]]], ['mm', 'k', op, 0]


def gen_truth_atom(draw):
    """(target, atom): a bare M on a value, or M(T[key]) on a container around it; 4 in 5 the value has no truth value
    (NOTRUTH), else it is an array-like that has one (one element / empty)"""
    v = draw(st.sampled_from(NOTRUTH if draw(st.sampled_from(range(5))) else ARR_TRUTH))
    form = draw(st.sampled_from(['M', 'M', 'MT']))
    if form == 'M':
        return v, ['M']
    if draw(st.booleans()):
        return ['xdict', [['k', v]]], ['MT', 'k']
    return ['xlist', [v]], ['MT', 0]


def gen_incomparable_atom(draw):
    return gen_cmp_atom(draw, 'typeerror', ['m', 'm', 'rm'])


def gen_incomparable(draw, counter, family='typeerror'):
    """constructed class: a comparison that Python cannot evaluate, below something that can react to a rejection (Or with
    a later child, Not, And / Or with a default) or bare (for Match(default=)).  Every shape is buildable by constructor and
    by operators (left operands are M expressions / combinators).
    family 'typeerror': an ordering comparison of unorderable builtins, as M op c / c op M;
    family 'other': the comparison raises something else (RAISING_OTHER; 1 in 5: a free pair over the same value classes,
    evaluable or not), in all four spellings of gen_cmp_atom; the children next to it are atoms without literal patterns;
    family 'truth': the atom is a bare M / M(T[key]) and the value it tests has no truth value (gen_truth_atom)."""
    if family == 'typeerror':
        target, atom = gen_incomparable_atom(draw)
        atoms = gen_atom
    elif family == 'truth':
        target, atom = gen_truth_atom(draw)
        atoms = gen_nolit_atom
    else:
        target, atom = gen_cmp_atom(draw, 'free' if draw(st.sampled_from(range(5))) == 0 else 'other')
        atoms = gen_nolit_atom
    dflt = lambda: draw(st.sampled_from([['lit', ['s', 'dflt']], ['T'], ['lit', ['none']], ['list-T']]))
    shape = draw(st.sampled_from(['or-next', 'or-next', 'not', 'and-default', 'or-default', 'nested', 'bare', 'not-not']))
    if shape == 'or-next':
        kids = [atom] + [atoms(draw, counter) for _ in range(draw(st.integers(1, 2)))]
        return ['or', kids], target
    if shape == 'not':
        return ['not', atom], target
    if shape == 'not-not':
        return ['not', ['not', atom]], target
    if shape == 'and-default':
        kids = [['M'], atom] if draw(st.booleans()) else [atom]
        return ['and', kids, dflt()], target
    if shape == 'or-default':
        kids = [atom, ['m', '==', ['s', 'zzz']]] if draw(st.booleans()) else [atom]
        return ['or', kids, dflt()], target
    if shape == 'nested':
        inner = ['or', [atom, ['type', 'object']]]
        return ['and', [inner, draw(st.sampled_from([['type', 'object'], ['val', ['i', 7]], ['not', atom]]))]], target
    return atom, target


def gen_bool(draw):
    counter = [0]
    k = draw(st.sampled_from(range(8)))
    if k <= 2:
        tree, target = gen_incomparable(draw, counter, ['typeerror', 'other', 'truth'][k])
        # (M(T[key]) has no & | ~ of its own: constructor spelling)
        r = {'tree': tree, 'target': target,
             'build': 'ctor' if k == 2 and "'MT'" in repr(tree) else draw(st.sampled_from(['ctor', 'ops']))}
    else:
        ops_mode = draw(st.booleans())
        tree = gen_tree(draw, draw(st.integers(1, 4)), counter, ops_mode)
        r = {'tree': tree, 'target': draw(st.sampled_from(TARGETS)), 'build': 'ops' if ops_mode else 'ctor'}
    # Match(tree, default=...): a rejection of the whole tree yields the default
    md = draw(st.sampled_from([None, None, None, None, ['lit', ['s', 'mdflt']], ['T']]))
    if md is not None:
        r['mdefault'] = md
    return r


def build_default(d):
    if d[0] == 'T':
        return T
    if d[0] == 'list-T':
        return [T, 'x']
    return tg.build(d[1]).obj


def ref_default(d, target):
    if d[0] == 'T':
        return target
    if d[0] == 'list-T':
        return [target, 'x']
    return tg.build(d[1]).obj


def gen_mm(draw):
    # both sides are M-things: M op M(T[k]), M(T[k]) op M, M(T[k]) op M(T[0]) ...
    sides = [draw(st.sampled_from(['M', 'k', 0])) for _ in range(2)]
    if sides == ['M', 'M']:
        sides[draw(st.integers(0, 1))] = 'k'
    return ['mm', sides[0], draw(st.sampled_from(OPS)), sides[1]]


def cmp_expr(lhs, op, v):
    return {'==': lhs == v, '!=': lhs != v, '>': lhs > v, '<': lhs < v, '>=': lhs >= v, '<=': lhs <= v}[op]


def build_tree(t, log, mode):
    tag = t[0]
    if tag == 'm':
        return cmp_expr(M, t[1], bval(t[2]))
    if tag == 'rm':
        v = bval(t[2])
        return {'==': v == M, '!=': v != M, '>': v > M, '<': v < M, '>=': v >= M, '<=': v <= M}[t[1]]
    if tag == 'mt':
        return cmp_expr(M(T[t[1]]), t[2], bval(t[3]))
    if tag == 'mm':
        side = lambda x: M if x == 'M' else M(T[x])
        return cmp_expr(side(t[1]), t[2], side(t[3]))
    if tag == 'M':
        return M
    if tag == 'MT':
        return M(T[t[1]])
    if tag == 'type':
        return TYPES[t[1]]
    if tag == 'lit':
        return tg.build(t[1]).obj
    if tag == 'pred':
        return (AnonPred if len(t) > 3 and t[3] == 'anon' else LogPred)(t[1], t[2], log)
    if tag == 'val':
        return Val(tg.build(t[1]).obj)
    if tag == 't':
        return T[t[1]]
    if tag == 'tfail':
        return T['nope']['deeper']
    if tag == 'not':
        c = build_tree(t[1], log, mode)
        return ~c if mode == 'ops' and hasattr(c, '__invert__') and not isinstance(c, type(T)) else Not(c)
    kids = [build_tree(c, log, mode) for c in t[1]]
    if mode == 'ops' and len(t) == 2:
        acc = kids[0]
        for k in kids[1:]:
            acc = (acc & k) if tag == 'and' else (acc | k)
        return acc
    kw = {}
    if len(t) > 2:
        kw['default'] = build_default(t[2])
    return (And if tag == 'and' else Or)(*kids, **kw)


class Rej(Exception):
    def __init__(self, why, access=False):
        Exception.__init__(self, why)
        self.why, self.access = why, access


CMP_FAMILIES = [('TypeError', TypeError), ('ArithmeticError', ArithmeticError), ('AttributeError', AttributeError),
                ('ValueError', ValueError), ('LookupError', LookupError), ('RecursionError', RecursionError)]


def ref_cmp(lhs, op, v, notes=None, form='m'):
    """"passes exactly when the Python comparison ... is true": a comparison that raises (or whose result has no truth value)
    is not true, it rejects (and "every rejection by these combinators is a MatchError").  notes records that it happened
    (class labels): (family of the exception, spelling of the atom)."""
    try:
        ok = bool({'==': lambda: lhs == v, '!=': lambda: lhs != v, '>': lambda: lhs > v, '<': lambda: lhs < v,
                   '>=': lambda: lhs >= v, '<=': lambda: lhs <= v}[op]())
    except Exception as e:
        if notes is not None:
            fam = [name for name, cls in CMP_FAMILIES if isinstance(e, cls)]
            notes.append((fam[0] if fam else 'OwnException', form))
        raise Rej('cmp-raises')
    return ok


def ref_truth(v, notes=None, form='M'):
    """bare M / M(T-expr): "passes when the target (the value of the T-expression) is truthy".  A value whose truth test raises
    (an array with several elements) is not true: the atom rejects like any other atom that is not true, Or goes on, Not
    passes, defaults apply.  notes records that it happened: ('truth', spelling)."""
    try:
        return bool(v)
    except Exception:
        if notes is not None:
            notes.append(('truth', form))
        return False


def label_no_truth(ctx, notes, recovered):
    """class labels for a case in which the reference met a bare M / M(T-expr) on a value without a truth value"""
    ctx.label('no-truth-value')
    if recovered:
        ctx.label('no-truth-value-recovered')
    if any(form == 'MT' for _, form in notes):
        ctx.label('no-truth-value-subspec')


def label_cmp_raises(ctx, notes, recovered):
    """class labels for a case in which the reference met a comparison that raises; recovered = the whole expression is
    true / a case or default was chosen all the same"""
    ctx.label('cmp-raises')
    if recovered:
        ctx.label('cmp-raises-recovered')
    other = sorted(set(fam for fam, _ in notes if fam != 'TypeError'))
    if other:
        ctx.label('cmp-raises-other')
        if recovered:
            ctx.label('cmp-raises-other-recovered')
        ctx.label(*['cmp-raises-' + fam for fam in other])
        if any(fam != 'TypeError' and form in ('mt', 'mm') for fam, form in notes):
            ctx.label('cmp-raises-other-subspec')         # M(T-expr) op c / M(T-expr) op M(T-expr)
        if any(fam != 'TypeError' and form == 'rm' for fam, form in notes):
            ctx.label('cmp-raises-other-reflected')       # c op M


MIRROR = {'==': '==', '!=': '!=', '>': '<', '<': '>', '>=': '<=', '<=': '>='}


def refbool(t, target, log, notes=None):
    """value the tree yields, or Rej; log receives the predicates that must run, in order; notes (optional list)
    receives an entry for every comparison that Python could not evaluate"""
    tag = t[0]
    if tag == 'm':
        if ref_cmp(target, t[1], bval(t[2]), notes):
            return target
        raise Rej('cmp')
    if tag == 'rm':
        # c op M  is the Python expression  c op target
        v = bval(t[2])
        if ref_cmp(v, t[1], target, notes, 'rm'):
            return target
        raise Rej('cmp')
    if tag in ('mt', 'MT', 't'):
        try:
            sub = target[t[1]]
        except (KeyError, IndexError, TypeError):
            raise Rej('access', True)
        if tag == 't':
            return sub
        if tag == 'MT':
            if ref_truth(sub, notes, 'MT'):
                return target
            raise Rej('falsy')
        if ref_cmp(sub, t[2], bval(t[3]), notes, 'mt'):
            return target
        raise Rej('cmp')
    if tag == 'mm':
        vals = []
        for x in (t[1], t[3]):
            if x == 'M':
                vals.append(target)
            else:
                try:
                    vals.append(target[x])
                except (KeyError, IndexError, TypeError):
                    raise Rej('access', True)
        if ref_cmp(vals[0], t[2], vals[1], notes, 'mm'):
            return target
        raise Rej('cmp')
    if tag == 'M':
        if ref_truth(target, notes, 'M'):
            return target
        raise Rej('falsy')
    if tag == 'type':
        if isinstance(target, TYPES[t[1]]):
            return target
        raise Rej('type')
    if tag == 'lit':
        if target == tg.build(t[1]).obj:
            return target
        raise Rej('eq')
    if tag == 'pred':
        log.append(('pred', t[1]))
        if t[2]:
            return target
        raise Rej('pred')
    if tag == 'val':
        return tg.build(t[1]).obj
    if tag == 'tfail':
        raise Rej('access', True)
    if tag == 'not':
        try:
            refbool(t[1], target, log, notes)
        except Rej:
            return target
        raise Rej('not')
    try:
        if tag == 'and':
            res = target
            for c in t[1]:
                res = refbool(c, target, log, notes)
            return res
        last = None
        for c in t[1]:
            try:
                return refbool(c, target, log, notes)      # first passing child wins, later children never run
            except Rej as r:
                last = r
        raise last
    except Rej:
        if len(t) > 2:
            return ref_default(t[2], target)
        raise


def count_combinators(t):
    if t[0] in ('and', 'or'):
        return 1 + sum(count_combinators(c) for c in t[1])
    if t[0] == 'not':
        return 1 + count_combinators(t[1])
    return 0


def count_preds(t):
    if t[0] in ('and', 'or'):
        return sum(count_preds(c) for c in t[1])
    if t[0] == 'not':
        return count_preds(t[1])
    return 1 if t[0] == 'pred' else 0


def run(target, spec):
    """('ok', value) | ('rej', GlomError raised by glom itself) | ('raise', foreign exception, possibly wrapped)"""
    try:
        return ('ok', glom.glom(target, spec))
    except Exception as e:
        if isinstance(e, GlomError) and not type(e).__name__.startswith('GlomError.wrap('):
            return ('rej', e)
        return ('raise', e)


def values_equal(a, b):
    if a is b:
        return True           # (the very object: also for values that are not equal to themselves, or whose == raises)
    if type(a) is not type(b):
        return False
    try:
        return bool(a == b)
    except Exception:
        return False          # two different objects that cannot be shown to be equal


def check_bool(recipe, ctx):
    tree = recipe['tree']
    target = bval(recipe['target'])
    snap = tg.snapshot(target)
    rlog, notes = [], []
    mdefault = recipe.get('mdefault')
    try:
        exp = ('ok', refbool(tree, target, rlog, notes))
    except Rej as r:
        exp = ('rej', r)
        if mdefault is not None:
            # Match(pattern, default=d): "the default to return if the match fails"
            exp = ('ok', ref_default(mdefault, target))
    glog = []
    try:
        spec = build_tree(tree, glog, recipe['build'])
    except Exception as e:
        raise Mismatch('construction-raises', 'building %r by %s raised %r' % (tree, recipe['build'], e))
    ncomb = count_combinators(tree)
    ctx.label('exp-' + exp[0], 'build-' + recipe['build'])
    if "'mm'" in repr(tree):
        ctx.label('m-on-both-sides')
    short = len(rlog) < count_preds(tree)
    if short:
        ctx.label('short-circuit')
    tnotes = [n for n in notes if n[0] == 'truth']
    notes = [n for n in notes if n[0] != 'truth']
    if notes:
        # an atom whose Python comparison raises; "recovered" = the whole expression is true all the same, i.e. an Or went
        # on to a later child, a Not inverted the rejection or a default (And / Or / Match) replaced it
        label_cmp_raises(ctx, notes, exp[0] == 'ok')
    if tnotes:
        # a bare M / M(T-expr) whose value has no truth value
        label_no_truth(ctx, tnotes, exp[0] == 'ok')
    if uses_exotic([tree, recipe['target']]):
        # operands of the value classes of RAISING_OTHER / EXOTIC; "evaluated": every comparison reached could be evaluated
        ctx.label('exotic-operand')
        if not notes:
            ctx.label('exotic-operand-evaluated')
    if mdefault is not None:
        ctx.label('match-default')
    ctx.nontrivial(ncomb >= 2 or short or 'dflt' in repr(tree) or (mdefault is not None and exp[0] == 'ok'))
    if mdefault is None:
        mspec = Match(spec)
    else:
        mspec = Match(spec, default=build_default(mdefault))
    where = 'spec=%r target=%r' % (mspec if mdefault is not None else spec, target)
    got = run(target, mspec)
    if got[0] == 'raise':
        raise Mismatch('unexpected-exception-class', '%s: expected %s, glom raised %s: %r'
                       % (where, exp[0], type(got[1]).__name__, got[1]))
    if exp[0] == 'ok':
        if got[0] != 'ok':
            raise Mismatch('false-reject', '%s: expression is true (yields %r) but glom raised %s: %s'
                           % (where, exp[1], type(got[1]).__name__, got[1].args))
        if not values_equal(got[1], exp[1]):
            raise Mismatch('wrong-result', '%s: expected %r, got %r' % (where, exp[1], got[1]))
        if exp[1] is target and got[1] is not target and not isinstance(target, tg._ATOM):
            raise Mismatch('target-copied', '%s: must yield the target itself' % where)
    else:
        if got[0] == 'ok':
            raise Mismatch('false-accept', '%s: expression is false (%s) but glom returned %r' % (where, exp[1].why, got[1]))
        e = got[1]
        has_access = any(tok in repr(tree) for tok in ("'mt'", "'mm'", "'MT'", "'t'", "'tfail'"))
        if not has_access and not isinstance(e, MatchError):
            raise Mismatch('rejection-not-matcherror', '%s: rejected (%s) with %s: %r'
                           % (where, exp[1].why, type(e).__name__, e.args))
        if has_access and not isinstance(e, (MatchError, PathAccessError)):
            raise Mismatch('rejection-not-matcherror', '%s: rejected with %s' % (where, type(e).__name__))
    if glog != rlog:
        raise Mismatch('evaluation-order', '%s: predicates that must run, in order: %r; observed: %r' % (where, rlog, glog))
    d = tg.snapshot_diff(snap, tg.snapshot(target))
    if d:
        raise Mismatch('target-mutated', '%s: %s' % (where, d))
    ctx.outcome([exp[0], repr(spec)[:100]])


# ---------------------------------------------------------------------------
# combinators are values: a spec kept in a variable and re-used as an operand still denotes its own expression

def gen_reuse(draw):
    counter = [0]
    leaf = lambda: ['m', draw(st.sampled_from(OPS)), ['i', draw(st.integers(0, 3))]]
    base_kind = draw(st.sampled_from(['and', 'or']))
    base = [base_kind, [leaf() for _ in range(draw(st.integers(1, 3)))]]
    if draw(st.integers(0, 4)) == 0:
        base.append(['lit', ['s', 'dflt']])
    derived = [[draw(st.sampled_from(['and', 'or'])), leaf()] for _ in range(draw(st.integers(1, 3)))]
    return {'base': base, 'derived': derived, 'targets': [draw(st.sampled_from(TARGETS[:5])) for _ in range(3)]}


def check_reuse(recipe, ctx):
    base_r = recipe['base']
    base = build_tree(base_r, [], 'ops' if len(base_r) == 2 else 'ctor')
    repr0 = repr(base)
    ctx.nontrivial(len(recipe['derived']) >= 2)

    def outcome(spec, t):
        return run(t, Match(spec))[0:1] + ((run(t, Match(spec))[1],) if run(t, Match(spec))[0] == 'ok' else ())

    def expected(tree, t):
        try:
            return ('ok', refbool(tree, t, []))
        except Rej:
            return ('rej',)
    targets = [tg.build(t).obj for t in recipe['targets']]
    specs = []
    for op, leaf_r in recipe['derived']:
        leaf = build_tree(leaf_r, [], 'ops')
        d = (base & leaf) if op == 'and' else (base | leaf)
        specs.append((d, [op, [base_r, leaf_r]]))
    for t in targets:
        if outcome(base, t) != expected(base_r, t):
            raise Mismatch('operand-mutated', 'after deriving %r from it, base %s (now %r) on %r gives %r, expected %r'
                           % ([repr(d) for d, _ in specs], repr0, base, t, outcome(base, t), expected(base_r, t)))
        for d, tree in specs:
            if outcome(d, t) != expected(tree, t):
                raise Mismatch('operand-mutated', 'derived %r (base %s %s leaf) on %r gives %r, expected %r'
                               % (d, repr0, tree[0], t, outcome(d, t), expected(tree, t)))
    if repr(base) != repr0:
        raise Mismatch('operand-mutated', 'repr of the base changed from %s to %r' % (repr0, base))
    ctx.outcome([repr0, len(specs)])


# ---------------------------------------------------------------------------
# Switch

def gen_switch(draw):
    counter = [0]
    n = draw(st.integers(1, 4))
    # constructed classes (1 in 6 each): the key spec of an early case is a comparison Python cannot evaluate on this target -
    # 'typeerror': unorderable builtins; 'other': it raises something else (1 in 5: a free pair over the same value classes);
    # 'truth': a bare M / M(T[key]) whose value has no truth value;
    # that case does not pass (Switch goes on to the next one), or passes when the key is its negation
    k = draw(st.sampled_from(range(6)))
    family = {0: 'typeerror', 1: 'other', 2: 'truth'}.get(k)
    atoms = gen_atom if family in (None, 'typeerror') else gen_nolit_atom
    cases = []
    for i in range(n):
        key = gen_tree(draw, draw(st.integers(0, 2)), counter, False, atoms)
        val = ['probe', i, draw(st.integers(0, 9)) == 0]
        cases.append([key, val])
    r = {'cases': cases, 'form': draw(st.sampled_from(['list', 'dict'])),
         'default': draw(st.sampled_from([None, None, ['lit', ['s', 'dflt']], ['T'], ['list-T']])),
         'target': draw(st.sampled_from(TARGETS))}
    if family is not None:
        if family == 'typeerror':
            r['target'], atom = gen_incomparable_atom(draw)
        elif family == 'truth':
            # the key spec is a bare M / M(T[key]) on a value without a truth value
            r['target'], atom = gen_truth_atom(draw)
        else:
            r['target'], atom = gen_cmp_atom(draw, 'free' if draw(st.sampled_from(range(5))) == 0 else 'other')
        i = draw(st.integers(0, min(1, n - 1)))
        cases[i][0] = draw(st.sampled_from([atom, atom, ['not', atom], ['or', [atom, ['type', 'str']]]]))
    return r


def check_switch(recipe, ctx):
    target = bval(recipe['target'])
    rlog, glog, notes = [], [], []
    # reference: "evaluates only the value spec of the first case whose key spec passes"
    exp = None
    for key, val in recipe['cases']:
        try:
            refbool(key, target, rlog, notes)
        except Rej:
            continue
        rlog.append(('probe', val[1]))
        if val[2]:
            exp = ('rej', 'value spec failed')
        else:
            exp = ('ok', ('value-of', val[1]))
        break
    else:
        if recipe['default'] is not None:
            exp = ('ok', ref_default(recipe['default'], target))
        else:
            exp = ('rej', 'no case')
    built = []
    for key, val in recipe['cases']:
        built.append((build_tree(key, glog, 'ctor'), Probe(val[1], glog, val[2])))
    cases = built
    if recipe['form'] == 'dict':
        try:
            as_dict = dict(built)
            if len(as_dict) == len(built):
                cases = as_dict
        except TypeError:
            pass               # unhashable key spec: list form only
    kw = {}
    if recipe['default'] is not None:
        kw['default'] = build_default(recipe['default'])
    spec = Switch(cases, **kw)
    ctx.label('exp-' + exp[0], 'form-' + recipe['form'], 'default' if kw else 'no-default')
    tnotes = [n for n in notes if n[0] == 'truth']
    notes = [n for n in notes if n[0] != 'truth']
    if notes:
        # a key spec whose comparison Python cannot evaluate was reached; "recovered" = a case / the default was chosen all the same
        label_cmp_raises(ctx, notes, exp[0] == 'ok')
    if tnotes:
        # a key spec that is a bare M / M(T-expr) on a value without a truth value was reached
        label_no_truth(ctx, tnotes, exp[0] == 'ok')
    ctx.nontrivial(len(recipe['cases']) >= 2)
    where = 'spec=%r target=%r' % (spec, target)
    got = run(target, Match(spec))
    if got[0] == 'raise':
        raise Mismatch('unexpected-exception-class', '%s: %r' % (where, got[1]))
    if exp[0] == 'ok':
        if got[0] != 'ok' or not values_equal(got[1], exp[1]):
            raise Mismatch('switch-result', '%s: expected %r, got %r' % (where, exp[1], got))
    else:
        if got[0] == 'ok':
            raise Mismatch('switch-false-accept', '%s: %s, but glom returned %r' % (where, exp[1], got[1]))
        if exp[1] == 'no case' and not isinstance(got[1], MatchError):
            raise Mismatch('switch-rejection-class', '%s: no case matches; raised %s' % (where, type(got[1]).__name__))
    if glog != rlog:
        raise Mismatch('switch-evaluation', '%s: expected evaluation log %r, observed %r' % (where, rlog, glog))
    ctx.outcome([exp[0], repr(spec)[:100]])


# ---------------------------------------------------------------------------
# Check keyword combinations

class Validator(object):
    def __init__(self, name, f, log):
        self.__name__ = name
        self.f, self.log = f, log

    def __call__(self, t):
        self.log.append(self.__name__)
        return self.f(t)

    def __repr__(self):
        return self.__name__


VALIDATORS = {'is_pos': lambda t: isinstance(t, (int, float)) and t > 0, 'is_small': lambda t: isinstance(t, int) and t < 3,
              'always': lambda t: True, 'never': lambda t: False,
              # a partial validator: raises TypeError on targets that cannot be compared with 0 ("If one or more return
              # False or raise an exception, the Check will fail")
              'raw_pos': lambda t: t > 0}


class Color(enum.Enum):
    RED = 'r'
    BLUE = 'b'


class Level(enum.IntEnum):
    """members are ints as well: isinstance(Level.LOW, int), Level.LOW == 1, type(Level.LOW) is Level"""
    LOW = 1
    HIGH = 5


class _IterableMeta(type):
    def __iter__(cls):
        return iter(())


class Shelf(_IterableMeta('ShelfBase', (object,), {})):
    """a class that is iterable itself (iterable metaclass) without being an Enum"""
    def __repr__(self):
        return 'Shelf()'


# classes that are iterable themselves: "a type or sequence of types" - each of them is ONE type
ITERABLE_CLASSES = {'Color': Color, 'Level': Level, 'Shelf': Shelf}
CHECK_TYPES = dict(TYPES, **ITERABLE_CLASSES)
SPECIAL_TARGETS = [['enum', 'Color', 'RED'], ['enum', 'Level', 'LOW'], ['enum', 'Level', 'HIGH'], ['inst', 'Shelf']]
CHECK_TARGETS = [['i', 0], ['i', 1], ['i', 5], ['s', 'a'], ['s', ''], ['b', True], ['f', 1.0], ['none'],
                 ['dict', [['k', ['i', 1]]]], ['dict', [['k', ['s', 'a']]]], ['list', [['i', 1]]]] + SPECIAL_TARGETS
ONE_OF_VALUES = [['i', 1], ['i', 5], ['s', 'a'], ['none']]
# "one_of: an iterable of values": containers that can be iterated again and again ...
ONE_OF_CONTAINERS = ['list', 'tuple', 'set', 'frozenset', 'dict', 'keys', 'reiter']
UNINDEXABLE = ('set', 'frozenset', 'dict', 'keys')
HASHED = UNINDEXABLE                    # containers whose `in` hashes the target
# targets that cannot be hashed (`t in {...}` raises TypeError) and are equal to none of ONE_OF_VALUES
UNHASHABLE_TARGETS = [['list', [['i', 1]]], ['list', []], ['dict', [['k', ['i', 1]]]], ['dict', []], ['list', [['s', 'a']]]]
# one_of given as a str: `1 in 'abc'` raises TypeError ('in <string>' requires string as left operand); the str targets are
# single characters, for which "in" and "one of the values the iterable yields" say the same
STR_CHARS = ['a', 'b', 'c']
STR_CONTAINER_TARGETS = [['i', 1], ['none'], ['f', 1.0], ['b', True], ['list', [['s', 'a']]], ['i', 5], ['s', 'a'], ['s', 'z'], ['s', 'b'],
                         ['s', 'a'], ['s', 'c']]
# (a, b): a == b raises (or yields something without a truth value) - the pairs of RAISING_OTHER that do so for ==, without the
# self-containing containers
EQ_RAISING = [(a, b) for fam in sorted(RAISING_OTHER) if fam != 'RecursionError'
              for a, b, ops in RAISING_OTHER[fam] if '==' in ops]
# ... and one-shot iterables (sub-check checkreuse)
ONE_SHOT = ['iter', 'gen']
TYPE_POOL = ['int', 'str', 'bool', 'float', 'int', 'str', 'Color', 'Level', 'Shelf']
INSTANCE_POOL = ['int', 'str', 'object', 'float', 'int', 'object', 'Color', 'Level', 'Shelf']


def build_ctarget(r):
    if r[0] == 'enum':
        return ITERABLE_CLASSES[r[1]][r[2]]
    if r[0] == 'inst':
        return ITERABLE_CLASSES[r[1]]()
    if r[0] == 'xdict':
        return dict((k, build_ctarget(v)) for k, v in r[1])
    if r[0] == 'tag':
        return Tag(r[1])
    return bval(r)          # (the grammar of vf.targets plus the value classes of the bool sub-check)


class Tag(object):
    """a value that cannot be hashed and is equal to its name and to Tags of the same name: Tag('a') in ['a'] is true"""
    def __init__(self, name):
        self.name = name

    def __eq__(self, other):
        return self.name == (other.name if isinstance(other, Tag) else other)

    def __ne__(self, other):
        return not self == other

    __hash__ = None

    def __repr__(self):
        return 'Tag(%r)' % self.name


class Allowed(object):
    """a re-iterable that is nothing but iterable: no __len__, no __contains__, no __getitem__ (`in` iterates it)"""
    def __init__(self, vals):
        self._vals = tuple(vals)

    def __iter__(self):
        return iter(self._vals)

    def __repr__(self):
        return 'Allowed(%r)' % (list(self._vals),)


def spell_one_of(vals, how):
    vals = list(vals)
    if how in (None, 'list'):
        return vals
    if how == 'tuple':
        return tuple(vals)
    if how == 'set':
        return set(vals)
    if how == 'frozenset':
        return frozenset(vals)
    if how == 'dict':
        return dict((v, 'x') for v in vals)
    if how == 'keys':
        return dict((v, 'x') for v in vals).keys()
    if how == 'iter':
        return iter(vals)
    if how == 'gen':
        return (v for v in vals)
    if how == 'reiter':
        return Allowed(vals)
    if how == 'str':
        if not all(isinstance(v, str) and len(v) == 1 for v in vals):
            raise HarnessBug('one_of spelled as a str needs one-character values, not %r' % (vals,))
        return ''.join(vals)
    raise HarnessBug('unknown one_of spelling %r' % (how,))


def one_of_text(vals, how):
    body = ', '.join(repr(v) for v in vals)
    return {None: '[%s]', 'list': '[%s]', 'tuple': 'tuple([%s])', 'set': 'set([%s])', 'frozenset': 'frozenset([%s])',
            'dict': 'dict.fromkeys([%s])', 'keys': 'dict.fromkeys([%s]).keys()', 'iter': 'iter([%s])',
            'gen': '(v for v in [%s])', 'reiter': 'Allowed([%s])', 'str': "''.join([%s])"}[how] % body


def spell_types(ts, how, single_bare=True):
    """how: 'list' | 'tuple' | 'iter' (a one-shot iterator); a single class is passed bare unless it is to be an iterator"""
    if how == 'iter':
        return iter(list(ts))
    if len(ts) == 1 and single_bare:
        return ts[0]
    return list(ts) if how == 'list' else tuple(ts)


def build_check(recipe, log):
    """(Check object, source-like text without memory addresses); construction errors propagate"""
    kw, txt = {}, []
    if recipe['type']:
        ts = [CHECK_TYPES[n] for n in recipe['type']]
        how = recipe.get('type_as', 'list')
        kw['type'] = spell_types(ts, how)
        txt.append('type=%s' % ('iter(%r)' % (recipe['type'],) if how == 'iter' else
                                recipe['type'][0] if len(ts) == 1 else '%s(%r)' % (how, recipe['type'])))
    if recipe['instance_of']:
        ts = [CHECK_TYPES[n] for n in recipe['instance_of']]
        how = recipe.get('instance_of_as', 'tuple')
        kw['instance_of'] = spell_types(ts, how)
        txt.append('instance_of=%s' % ('iter(%r)' % (recipe['instance_of'],) if how == 'iter' else
                                       recipe['instance_of'][0] if len(ts) == 1 else '%s(%r)' % (how, recipe['instance_of'])))
    if recipe['equal_to'] is not None:
        kw['equal_to'] = bval(recipe['equal_to'])
        txt.append('equal_to=%r' % (kw['equal_to'],))
    if recipe['one_of'] is not None:
        vals = [bval(x) for x in recipe['one_of']]
        kw['one_of'] = spell_one_of(vals, recipe.get('one_of_as'))
        txt.append('one_of=%s' % one_of_text(vals, recipe.get('one_of_as')))
    if recipe['validate']:
        vs = [Validator(n, VALIDATORS[n], log) for n in recipe['validate']]
        if recipe.get('validate_as') == 'iter':
            kw['validate'] = iter(vs)
            txt.append('validate=iter(%r)' % (vs,))
        else:
            kw['validate'] = vs[0] if (len(vs) == 1 and recipe['validate_single']) else vs
            txt.append('validate=%r' % (kw['validate'],))
    if recipe['default'] is not None:
        kw['default'] = build_default(recipe['default'])
        txt.append('default=%r' % (kw['default'],))
    args = () if recipe['sub'] is None else (T[recipe['sub']],)
    text = 'Check(%s)' % ', '.join([repr(a) for a in args] + txt)
    spec = Check(*args, **kw)
    # something around the Check that reacts to its failure
    wrap = recipe.get('wrap')
    if wrap == 'or':
        spec, text = Or(spec, Val(ALT)), 'Or(%s, Val(%r))' % (text, ALT)
    elif wrap == 'match':
        spec, text = Match(spec, default=ALT), 'Match(%s, default=%r)' % (text, ALT)
    elif wrap is not None:
        raise HarnessBug('unknown wrap %r' % (wrap,))
    return spec, kw, text


ALT = 'alt'


def gen_check_base(draw, type_pool=TYPE_POOL, instance_pool=INSTANCE_POOL):
    opt = lambda s: draw(st.one_of(st.none(), s))
    r = {
        'type': opt(st.lists(st.sampled_from(type_pool), min_size=1, max_size=2, unique=True)),
        'instance_of': opt(st.lists(st.sampled_from(instance_pool), min_size=1, max_size=2, unique=True)),
        'equal_to': opt(st.sampled_from([['i', 1], ['s', 'a'], ['f', 1.0]])),
        'one_of': opt(st.lists(st.sampled_from(ONE_OF_VALUES), min_size=1, max_size=3, unique_by=repr)),
        'validate': opt(st.lists(st.sampled_from(sorted(VALIDATORS)), min_size=1, max_size=2, unique=True)),
        'validate_single': draw(st.booleans()),
        'instance_of_as': draw(st.sampled_from(['tuple', 'tuple', 'list'])),      # "a type or sequence of types"
        'default': draw(st.sampled_from([None, None, ['lit', ['s', 'dflt']], ['T'], ['list-T'], ['lit', ['none']]])),
        'sub': draw(st.sampled_from([None, None, 'k'])),
    }
    if r['equal_to'] is not None:
        r['one_of'] = None
    return r


def gen_check(draw):
    r = gen_check_base(draw)
    r['one_of_as'] = draw(st.sampled_from(ONE_OF_CONTAINERS))
    r['targets'] = [draw(st.sampled_from(CHECK_TARGETS))]
    forced = draw(st.integers(0, 11))
    if forced == 5:        # (not 0 / 11: Hypothesis draws the bounds of a range more often than the rest)
        # constructed class: a container with exactly one value that cannot be indexed, no default (so that a rejection
        # has to be reported by CheckError)
        r['equal_to'] = None
        r['one_of'] = [draw(st.sampled_from(ONE_OF_VALUES))]
        r['one_of_as'] = draw(st.sampled_from(UNINDEXABLE))
        r['default'] = None
        if draw(st.booleans()):
            r['type'] = r['instance_of'] = r['validate'] = None
    elif forced in (1, 2, 3, 4):
        gen_membership(draw, r)
    elif forced in (6, 7):
        # constructed class: ONE class that is iterable itself, given bare, with instances and non-instances as targets
        which = draw(st.sampled_from(['type', 'instance_of']))
        name = draw(st.sampled_from(sorted(ITERABLE_CLASSES)))
        r[which] = [name]
        if draw(st.booleans()):
            r['type' if which == 'instance_of' else 'instance_of'] = None
        if draw(st.booleans()):
            r['targets'] = [draw(st.sampled_from(SPECIAL_TARGETS))]
    if draw(st.integers(0, 5)) == 0:
        # the same Check object once more
        if r['one_of_as'] == 'str' and r['one_of'] is not None:
            again = draw(st.sampled_from(STR_CONTAINER_TARGETS))         # (not '': see STR_CONTAINER_TARGETS)
            r['targets'].append(again if r['sub'] is None else ['xdict', [[r['sub'], again]]])
        else:
            r['targets'].append(draw(st.sampled_from(CHECK_TARGETS)))
    return r


def gen_membership(draw, r):
    """constructed classes around the membership test of one_of / equal_to (r is modified in place):
    'unhashable'  a list / dict target against a set / frozenset / dict / dict.keys(): `in` raises TypeError
    'str'         one_of is a str; non-str targets (`in` raises TypeError) and single characters
    'eq'          a pair whose == raises (EQ_RAISING): one of them is the target, the other equal_to or a value of a one_of
                  list / tuple / re-iterable, alone or next to a plain value
    'reiter'      one_of is a re-iterable that has no __len__ (nothing raises: members and non-members)
    'tag'         an unhashable target that is EQUAL to a listed value (or to none), one_of a list / tuple / re-iterable: `in`
                  scans the values with ==, nothing raises, the target is listed
    and, 1 in 2, something around the Check that reacts to its failure: Or(check, Val('alt')) / Match(check, default='alt')"""
    shape = draw(st.sampled_from(['unhashable', 'unhashable', 'str', 'eq', 'eq', 'reiter', 'reiter', 'tag']))
    r['equal_to'] = None
    if shape == 'unhashable':
        target = draw(st.sampled_from(UNHASHABLE_TARGETS))
        r['one_of'] = draw(st.lists(st.sampled_from(ONE_OF_VALUES), min_size=1, max_size=3, unique_by=repr))
        r['one_of_as'] = draw(st.sampled_from(HASHED))
    elif shape == 'str':
        target = draw(st.sampled_from(STR_CONTAINER_TARGETS))
        r['one_of'] = [['s', c] for c in draw(st.lists(st.sampled_from(STR_CHARS), min_size=1, max_size=3, unique=True))]
        r['one_of_as'] = 'str'
    elif shape == 'eq':
        target, other = draw(st.sampled_from(EQ_RAISING))
        if draw(st.booleans()):
            target, other = other, target
        r['validate'] = None             # (the validators of this module are written for plain values)
        if draw(st.sampled_from(range(3))) == 0:
            r['equal_to'], r['one_of'] = other, None
        else:
            vals = [other]
            if draw(st.booleans()):
                vals.insert(draw(st.integers(0, 1)), draw(st.sampled_from(ONE_OF_VALUES)))
            r['one_of'] = vals
            r['one_of_as'] = draw(st.sampled_from(['list', 'tuple', 'reiter']))
    elif shape == 'tag':
        target = ['tag', draw(st.sampled_from(['a', 'a', 'a', 'zz', 1]))]
        r['one_of'] = draw(st.lists(st.sampled_from(ONE_OF_VALUES), min_size=1, max_size=3, unique_by=repr))
        r['one_of_as'] = draw(st.sampled_from(['list', 'tuple', 'reiter']))
        r['type'] = r['validate'] = None
        if r['instance_of']:
            r['instance_of'] = ['object']
    else:
        target = r['targets'][0]
        r['one_of'] = draw(st.lists(st.sampled_from(ONE_OF_VALUES), min_size=1, max_size=3, unique_by=repr))
        r['one_of_as'] = 'reiter'
        if draw(st.sampled_from(range(3))):
            r['default'] = None
    if draw(st.booleans()):
        r['type'] = r['instance_of'] = r['validate'] = None
    r['targets'] = [target if r['sub'] is None else ['xdict', [[r['sub'], target]]]]
    wrap = draw(st.sampled_from([None, None, 'or', 'match']))
    if wrap is not None:
        r['wrap'] = wrap


def gen_checkreuse(draw):
    """ONE Check built from one-shot iterables, evaluated several times; about half of the targets are values listed in
    one_of (as the sub-spec's result when there is a sub-spec), so that later evaluations have something to accept"""
    maybe = lambda s: draw(s) if draw(st.integers(0, 3)) == 0 else None
    values = draw(st.lists(st.sampled_from(ONE_OF_VALUES), min_size=1, max_size=3, unique_by=repr))
    r = {
        'type': maybe(st.lists(st.sampled_from(['int', 'str', 'bool']), min_size=1, max_size=2, unique=True)),
        'instance_of': maybe(st.lists(st.sampled_from(['int', 'str', 'object']), min_size=1, max_size=2, unique=True)),
        'equal_to': None,
        'one_of': values,
        'one_of_as': draw(st.sampled_from(ONE_SHOT)),
        'validate': maybe(st.lists(st.sampled_from(sorted(VALIDATORS)), min_size=1, max_size=2, unique=True)),
        'validate_single': False,
        'default': draw(st.sampled_from([None, None, ['lit', ['s', 'dflt']], ['T'], ['lit', ['none']]])),
        'sub': draw(st.sampled_from([None, None, None, 'k'])),
    }
    for k in ('type_as', 'instance_of_as', 'validate_as'):
        r[k] = draw(st.sampled_from(['iter', 'list']))
    targets = []
    for _ in range(draw(st.integers(2, 4))):
        if draw(st.booleans()):
            v = draw(st.sampled_from(values))
            targets.append(v if r['sub'] is None else ['dict', [['k', v]]])
        else:
            targets.append(draw(st.sampled_from(CHECK_TARGETS)))
    r['targets'] = targets
    return r


def ref_check(recipe, target):
    """the conditions of the docstring on one target: {'access': bool, 'sub': value, 'failed': [...], 'member_exc': exc|None,
    'validator_raised': bool}.  equal_to / one_of: "enforces ... equal_to / one_of" - the value has to BE equal to / one of the
    values given; a test that cannot be evaluated (an unhashable target against a set, a str container and a non-str, an ==
    that raises) does not show that it is: the condition fails like for any other value that is not listed (member_exc
    records the exception, for the class labels)."""
    out = {'access': True, 'sub': None, 'failed': [], 'member_exc': None, 'validator_raised': False}
    try:
        sub = target if recipe['sub'] is None else target[recipe['sub']]
    except (KeyError, IndexError, TypeError):
        out['access'] = False
        return out
    out['sub'] = sub
    failed = out['failed']
    # "type: a type or sequence of types to be checked for exact match"
    if recipe['type'] and type(sub) not in [CHECK_TYPES[n] for n in recipe['type']]:
        failed.append('type')
    # "equal_to: a value to be checked for equality match"; "one_of: an iterable of values, any of which can match ("in")"
    vals = None
    if recipe['equal_to'] is not None:
        vals = [bval(recipe['equal_to'])]
        test = lambda: sub == vals[0]                                     # ("==")
    elif recipe['one_of'] is not None:
        vals = [bval(x) for x in recipe['one_of']]
        test = lambda: sub in spell_one_of(vals, recipe.get('one_of_as'))   # Python's own "in" on a fresh container
    if vals is not None:
        try:
            listed = bool(test())
        except Exception as e:
            listed, out['member_exc'] = False, e
        # "an iterable of values, any of which can match": the reading by iteration has to say the same as "in", else the
        # case is outside what this check decides (a generator bug: e.g. 'ab' in 'abc')
        try:
            by_iteration = any(v is sub or bool(v == sub) for v in vals)
        except Exception:
            by_iteration = False
        if by_iteration != listed:
            raise HarnessBug('one_of=%r target=%r: "in" says %r, iterating the values says %r'
                             % (recipe.get('one_of_as'), sub, listed, by_iteration))
        if not listed:
            failed.append('value')
    # "validate: a callable or list of callables ... If one or more return False or raise an exception, the Check will fail"
    if recipe['validate']:
        for n in recipe['validate']:
            try:
                ok_ = VALIDATORS[n](sub)
            except Exception:
                ok_ = False
                out['validator_raised'] = True
            if not ok_:
                failed.append('validate:' + n)
    elif not any(recipe[k] for k in ('type', 'instance_of', 'validate')) and vals is None:
        # "if all check conditions are left unset, Check defaults to performing a basic truthy check"
        if not sub:
            failed.append('truthy')
    # "instance_of: a type or sequence of types to be checked with isinstance()"
    if recipe['instance_of'] and not isinstance(sub, tuple(CHECK_TYPES[n] for n in recipe['instance_of'])):
        failed.append('instance_of')
    return out


def eval_check(spec, recipe, target, ref, where):
    """one evaluation of the Check against the reference; returns the outcome tag"""
    try:
        got = ('ok', glom.glom(target, spec))
    except CheckError as e:
        got = ('check', e)
    except GlomError as e:
        got = ('raise', e) if type(e).__name__.startswith('GlomError.wrap(') else ('glomerr', e)
    except Exception as e:
        got = ('raise', e)
    wrapped = recipe.get('wrap') is not None
    if not ref['access']:
        if wrapped:
            # (Or goes on to Val('alt') / Match returns its default: the module's rule for a failing access below Or)
            if got[0] != 'ok' or got[1] != ALT:
                raise Mismatch('check-access', '%s: sub-spec access fails, expected %r, got %r' % (where, ALT, got))
        elif got[0] != 'glomerr' or not isinstance(got[1], PathAccessError):
            raise Mismatch('check-access', '%s: sub-spec access fails, expected PathAccessError, got %r' % (where, got))
        return got[0]
    failed, sub = ref['failed'], ref['sub']
    if got[0] == 'raise':
        if ref['member_exc'] is not None:
            raise Mismatch('check-membership-raises', '%s: the membership test of %r cannot be evaluated (%r): the value is not '
                           'one of those listed, conditions failed: %r; expected %s, glom raised %s: %r'
                           % (where, sub, ref['member_exc'], failed,
                              'the default' if recipe['default'] is not None else repr(ALT) if wrapped else 'CheckError',
                              type(got[1]).__name__, got[1]))
        raise Mismatch('check-unexpected-exception', '%s: conditions failed: %r; glom raised %s: %r'
                       % (where, failed, type(got[1]).__name__, got[1]))
    if not failed:
        if got[0] != 'ok' or got[1] is not target and got[1] != target:
            raise Mismatch('check-false-reject', '%s: all conditions hold, got %r' % (where, got))
        if got[1] is not target and not isinstance(target, tg._ATOM):
            raise Mismatch('check-not-passthrough', '%s: must pass the original target through' % where)
    elif recipe['default'] is not None:
        expd = ref_default(recipe['default'], sub)
        if got[0] != 'ok' or not values_equal(got[1], expd):
            raise Mismatch('check-default', '%s: failed %r, expected default %r, got %r' % (where, failed, expd, got))
    elif wrapped:
        # the Check fails: Or yields its next child's result, Match its default
        if got[0] != 'ok' or got[1] != ALT:
            raise Mismatch('check-wrapped', '%s: conditions failed %r, expected %r, got %r' % (where, failed, ALT, got))
    else:
        if got[0] != 'check':
            raise Mismatch('check-false-accept', '%s: conditions failed %r, got %r' % (where, failed, got))
        if len(got[1].msgs) != len(failed):
            raise Mismatch('check-error-list', '%s: failed conditions %r, CheckError lists %r' % (where, failed, got[1].msgs))
    return got[0]


def check_checkkw(recipe, ctx):
    trecipes = recipe['targets'] if 'targets' in recipe else [recipe['target']]
    targets = [build_ctarget(t) for t in trecipes]
    log = []
    try:
        spec, kw, text = build_check(recipe, log)
    except HarnessBug:
        raise
    except Exception as e:
        raise Mismatch('check-construction', 'Check(%s ...) for recipe %r raised %r'
                       % ('' if recipe['sub'] is None else 'T[%r],' % recipe['sub'],
                          dict((k, v) for k, v in recipe.items() if k not in ('targets', 'target')), e))
    refs = [ref_check(recipe, t) for t in targets]
    first = refs[0]
    # -- classes (measured on the reference, never on what glom did)
    ctx.label('pass' if first['access'] and not first['failed'] else
              ('fail-%d' % min(len(first['failed']), 3) if first['access'] else 'access-fail'),
              'default' if recipe['default'] is not None else 'no-default')
    if any(r['validator_raised'] for r in refs):
        ctx.label('validator-raises')
    one_of_as = recipe.get('one_of_as') or 'list'
    if any(r['member_exc'] is not None for r in refs):
        # the membership test cannot be evaluated; by what it is made of, and by who has to react to the failed condition
        ctx.label('membership-raises')
        ctx.label('membership-raises-' + ('equal_to' if recipe['equal_to'] is not None else
                                          'hashed' if one_of_as in HASHED else 'str' if one_of_as == 'str' else 'eq'))
        ctx.label('membership-raises-' + ('default' if recipe['default'] is not None else
                                          'wrapped' if recipe.get('wrap') else 'no-default'))
    if recipe['one_of'] is not None:
        ctx.label('one_of-' + one_of_as)
        value_rejected = [r['access'] and r['member_exc'] is None and 'value' in r['failed'] for r in refs]
        if len(recipe['one_of']) == 1 and one_of_as in UNINDEXABLE and recipe['default'] is None and any(value_rejected):
            # exactly one value, in a container without [0], and the rejection has to be reported by CheckError
            ctx.label('one_of-single-unindexable-reject')
        if one_of_as == 'reiter' and recipe['default'] is None and any(value_rejected):
            # a container without len(), and the rejection has to be reported (CheckError, or to the Or / Match around)
            ctx.label('one_of-reiter-reject-no-default')
        if any(t[0] == 'tag' or (t[0] == 'xdict' and t[1][0][1][0] == 'tag') for t in trecipes) and \
                any(r['access'] and not r['failed'] for r in refs):
            ctx.label('one_of-unhashable-listed')        # an unhashable target that is equal to a listed value: passes
        if one_of_as in ('reiter', 'str') and any(r['access'] and 'value' not in r['failed'] for r in refs):
            ctx.label('one_of-%s-listed' % one_of_as)
        if one_of_as in ONE_SHOT and len(targets) >= 2:
            ctx.label('one_of-oneshot-reused')
            if any(r['access'] and 'value' not in r['failed'] for r in refs[1:]):
                ctx.label('one_of-oneshot-later-hit')          # an evaluation after the first must find a listed value
            if recipe['default'] is None and any(value_rejected):
                ctx.label('one_of-oneshot-reject-no-default')
    for k in ('type', 'instance_of'):
        if recipe[k] and len(recipe[k]) == 1 and recipe[k][0] in ITERABLE_CLASSES and recipe.get(k + '_as') != 'iter':
            ctx.label('bare-iterable-class')
            # both outcomes of the condition are of interest: an instance of the class, and something else
            ctx.label('bare-iterable-class-' + ('fails' if first['access'] and k in first['failed'] else 'holds-or-na'))
            break
    if recipe.get('wrap'):
        ctx.label('wrapped-' + recipe['wrap'])
    if len(targets) >= 2:
        ctx.label('evaluated-again')
    ctx.nontrivial(len([k for k in kw if k != 'default']) >= 2 or (first['failed'] and recipe['default'] is not None)
                   or len(targets) >= 2)
    # -- the same Check object on every target in turn
    outcomes = []
    for i, (target, ref) in enumerate(zip(targets, refs)):
        where = 'spec=%s target=%r%s' % (text, target, '' if i == 0 else ' (evaluation #%d of the same Check object, after %r)'
                                         % (i + 1, targets[:i]))
        try:
            outcomes.append(eval_check(spec, recipe, target, ref, where))
        except Mismatch as mm:
            if i == 0:
                raise
            # does a freshly built, equal Check decide this target as expected?  Then the earlier evaluations changed
            # the decision (bucket name only: the expectation itself never depends on glom)
            try:
                eval_check(build_check(recipe, [])[0], recipe, target, ref, where)
            except Mismatch:
                raise mm
            raise Mismatch('check-reuse', '%s | a freshly built Check decides this target as expected' % (mm,))
    ctx.outcome([outcomes, text[:100]])


SUBS = [
    Sub('bool', check_bool, gen=gen_bool, quick=8000, thorough=30000,
        floors={'exp-ok': 0.2, 'exp-rej': 0.18, 'short-circuit': 0.02, 'build-ops': 0.2,
                'cmp-raises': 0.07, 'cmp-raises-recovered': 0.04, 'match-default': 0.11,
                # a comparison that raises something other than TypeError: overall, below something that reacts to the
                # rejection, as M(T-expr) op c, as c op M, per exception family; evaluable comparisons of the same classes
                'cmp-raises-other': 0.03, 'cmp-raises-other-recovered': 0.02, 'cmp-raises-other-subspec': 0.015,
                'cmp-raises-other-reflected': 0.002, 'cmp-raises-ArithmeticError': 0.003, 'cmp-raises-AttributeError': 0.003,
                'cmp-raises-ValueError': 0.003, 'cmp-raises-LookupError': 0.003, 'cmp-raises-OwnException': 0.003,
                'cmp-raises-RecursionError': 0.003, 'exotic-operand-evaluated': 0.0035,
                # a bare M / M(T[k]) on a value without a truth value: overall, below something that reacts, as M(T[k])
                'no-truth-value': 0.025, 'no-truth-value-recovered': 0.018, 'no-truth-value-subspec': 0.009}),
    Sub('switch', check_switch, gen=gen_switch, quick=3000, thorough=10000,
        floors={'exp-ok': 0.2, 'exp-rej': 0.05, 'cmp-raises': 0.15, 'cmp-raises-recovered': 0.1,
                'cmp-raises-other': 0.06, 'cmp-raises-other-recovered': 0.04, 'cmp-raises-other-subspec': 0.022,
                'cmp-raises-ArithmeticError': 0.004, 'cmp-raises-AttributeError': 0.004, 'cmp-raises-ValueError': 0.004,
                'cmp-raises-LookupError': 0.004, 'cmp-raises-OwnException': 0.004, 'cmp-raises-RecursionError': 0.004,
                'no-truth-value': 0.06, 'no-truth-value-recovered': 0.035, 'no-truth-value-subspec': 0.011}),
    Sub('checkkw', check_checkkw, gen=gen_check, quick=4000, thorough=15000,
        floors={'pass': 0.05, 'default': 0.2, 'one_of-single-unindexable-reject': 0.02, 'bare-iterable-class': 0.09,
                'bare-iterable-class-fails': 0.05, 'bare-iterable-class-holds-or-na': 0.028, 'one_of-list': 0.015,
                'one_of-tuple': 0.015, 'one_of-set': 0.015, 'one_of-frozenset': 0.015, 'one_of-dict': 0.015,
                'one_of-keys': 0.015, 'one_of-reiter': 0.04, 'one_of-str': 0.02,
                # a membership test that cannot be evaluated: overall; by what it is made of (a hashed container and an
                # unhashable target, a str and a non-str, an == that raises inside one_of / as equal_to); by who has to react
                # (the Check's default, CheckError, an Or / Match around the Check)
                'membership-raises': 0.1, 'membership-raises-hashed': 0.05, 'membership-raises-str': 0.013,
                'membership-raises-eq': 0.015, 'membership-raises-equal_to': 0.012, 'membership-raises-default': 0.055,
                'membership-raises-no-default': 0.027, 'membership-raises-wrapped': 0.012,
                # a re-iterable without __len__: a value that is not listed and has to be reported; listed values (also of a str)
                'one_of-reiter-reject-no-default': 0.016, 'one_of-reiter-listed': 0.011, 'one_of-str-listed': 0.0035,
                # an unhashable target that is equal to a listed value (one_of a sequence: `in` scans it): passes
                'one_of-unhashable-listed': 0.007}),
    Sub('checkreuse', check_checkkw, gen=gen_checkreuse, quick=1500, thorough=6000,
        floors={'one_of-oneshot-later-hit': 0.28, 'one_of-oneshot-reject-no-default': 0.15, 'one_of-iter': 0.25,
                'one_of-gen': 0.18, 'pass': 0.15}),
    Sub('reuse', check_reuse, gen=gen_reuse, quick=800, thorough=4000),
]
