"""C01 — Path access returns the addressed object or pinpoints the failing segment.

Generator: a target recipe, then a path produced by *walking the built target*:
at each position a segment valid for the current value (p~0.8) or an invalid one
of a chosen kind; after the first invalid segment 0-3 arbitrary further
segments.  The same logical path is evaluated in every spelling it admits
(dotted string, Path(...), pure T, Path mixed with T chunks).

Oracle: refwalk() below - a 15-line walker written from the statement
(mapping key / int-coerced sequence index / otherwise attribute).
"""
from hypothesis import strategies as st

import glom
from glom import Path, T, PathAccessError, GlomError

from ..runner import Sub, Mismatch
from .. import runner as runner_mod
from .. import targets as tg

PROPERTY = 'C01'
RULE = ('targets: recursive recipes over dict/OrderedDict/list/tuple/attribute objects/scalars/None '
        '(empty, shared and cyclic sub-objects, recording subclasses); paths: 0-6 segments obtained by '
        'walking the target, valid or invalid at every position, each evaluated in every spelling it '
        'admits. Non-trivial = path length >= 2 and (first failure at segment k >= 1, or success '
        'through >= 2 different container kinds). Distinct = distinct recipe hash.')
ASSUMPTIONS = [
    'reference walker refwalk() transcribes the statement: mapping -> cur[seg], list/tuple -> cur[int(seg)], else getattr',
    'identity is required for containers; immutable atoms and bound methods are compared by == (Python gives no identity guarantee)',
    'targets have well-behaved __eq__/__repr__; recording subclasses of dict/list/object log item/attribute access',
]
BOUNDS = {'quick': {'depth': 4, 'width': 3, 'path_len': 6}, 'thorough': {'depth': 5, 'width': 4, 'path_len': 8}}

MAPPING = (dict,)
SEQ = (list, tuple)


def kind_of(v):
    if isinstance(v, MAPPING):
        return 'map'
    if isinstance(v, SEQ):
        return 'seq'
    return 'attr'


def ref_step(cur, op, seg):
    if op == 'P':
        k = kind_of(cur)
        if k == 'map':
            return cur[seg]
        if k == 'seq':
            return cur[int(seg)]
        return getattr(cur, seg)
    if op == '[':
        return cur[seg]
    return getattr(cur, seg)


def refwalk(target, steps):
    """returns ('ok', obj, kinds) or ('err', k, exc)"""
    cur = target
    kinds = []
    for k, (op, seg) in enumerate(steps):
        kinds.append(kind_of(cur))
        try:
            cur = ref_step(cur, op, seg)
        except Exception as e:
            return ('err', k, e, kinds)
    return ('ok', cur, None, kinds)


INVALID_SEGS = ['zz', 'missing', '9', '-9', 'x y', '', '1.5', 99, -99, None]
ATTRS = ['a', 'b', 'c', 'x', 'real', 'zz']


def gen(draw):
    big = runner_mod.thorough()
    trecipe = tg.target_recipes(draw, depth=5 if big else 4, width=4 if big else 3)
    b = tg.build(trecipe)
    cur = b.obj
    steps = []
    n = draw(st.integers(0, 8 if big else 6))
    failed = False
    for _ in range(n):
        op = draw(st.sampled_from(['P', 'P', 'P', 'P', '[', '.']))
        valid = (not failed) and draw(st.integers(0, 9)) < 8
        seg = None
        if valid:
            k = kind_of(cur)
            if k == 'map' and len(cur) and op in ('P', '['):
                seg = draw(st.sampled_from(list(dict.keys(cur))))
            elif k == 'seq' and len(cur) and op in ('P', '['):
                i = draw(st.integers(-len(cur), len(cur) - 1))
                if op == 'P' and draw(st.booleans()):
                    seg = draw(st.sampled_from([str(i), ' %d ' % i, '%d' % i]))
                else:
                    seg = i
            elif op in ('P', '.') and k == 'attr':
                names = [a for a in getattr(cur, '__dict__', {}) if not a.startswith('_')]
                if names:
                    seg = draw(st.sampled_from(sorted(names)))
                elif isinstance(cur, (int, float)) and not isinstance(cur, bool):
                    seg = 'real'
            if seg is None:
                valid = False
        if not valid:
            if op == '.':
                seg = draw(st.sampled_from(ATTRS))
            else:
                seg = draw(st.sampled_from(INVALID_SEGS + ATTRS))
        if op == '.' and not (isinstance(seg, str) and seg.isidentifier() and not seg.startswith('__')):
            op = 'P'
        steps.append([op, seg])
        if not failed:
            try:
                cur = ref_step(cur, op, seg)
            except Exception:
                failed = True
    return {'target': trecipe, 'steps': steps}


def spellings(steps):
    out = []
    ops = [s[0] for s in steps]
    segs = [s[1] for s in steps]
    if steps and all(o == 'P' and isinstance(s, str) and '.' not in s and s not in ('*', '**')
                     for o, s in steps):
        out.append('str')
        out.append('strsub')       # the same dotted text as an instance of a str subclass (e.g. a str-Enum member)
    out.append('path')
    if steps and all(o in '[.' for o in ops):
        out.append('t')
    if all(o == 'P' for o in ops):
        out.append('path-nested')
    return out


class StrSub(str):
    pass


def make_spec(steps, spelling):
    if spelling == 'str':
        return '.'.join(s for _, s in steps)
    if spelling == 'strsub':
        return StrSub('.'.join(s for _, s in steps))
    if spelling == 't':
        t = T
        for op, seg in steps:
            t = t[seg] if op == '[' else getattr(t, seg)
        return t
    if spelling == 'path-nested':
        half = len(steps) // 2
        return Path(Path(*[s for _, s in steps[:half]]), Path(*[s for _, s in steps[half:]]))
    parts = []
    for op, seg in steps:
        if op == 'P':
            parts.append(seg)
        elif op == '[':
            parts.append(T[seg])
        else:
            parts.append(getattr(T, seg))
    return Path(*parts)


def _jsonable_steps(steps):
    return [(op, seg) for op, seg in steps]


def check(recipe, ctx):
    steps = [(op, seg) for op, seg in recipe['steps']]
    b = tg.build(recipe['target'])
    target = b.obj
    snap = tg.snapshot(target)
    b.log.reset()
    exp = refwalk(target, steps)
    exp_log = list(b.log)
    if tg.snapshot_diff(snap, tg.snapshot(target)):
        raise Mismatch('harness', 'reference walk mutated the target')
    ctx.label('exp-' + exp[0], 'len-%d' % min(len(steps), 3))
    if exp[0] == 'err':
        ctx.label('fail-at-%s' % ('0' if exp[1] == 0 else 'k>=1'))
    nt = len(steps) >= 2 and ((exp[0] == 'err' and exp[1] >= 1) or
                              (exp[0] == 'ok' and len(set(exp[3])) >= 2))
    ctx.nontrivial(nt)
    sps = spellings(steps)
    for sp in sps:
        ctx.label('spelling-' + sp)
        spec = make_spec(steps, sp)
        b.log.reset()
        try:
            got = glom.glom(target, spec)
            err = None
        except PathAccessError as e:
            got, err = None, e
        except Exception as e:
            raise Mismatch('wrong-exception-class',
                           '%s: expected %s, glom raised %s: %r' % (sp, exp[0], type(e).__name__, e))
        got_log = list(b.log)
        where = 'spelling=%s steps=%r' % (sp, steps)
        if exp[0] == 'ok':
            if err is not None:
                raise Mismatch('spurious-error', '%s: reference succeeds, glom raised %r' % (where, err))
            if not tg.same(got, exp[1]):
                raise Mismatch('wrong-object', '%s: expected the object %r (id %x), got %r (id %x)'
                               % (where, exp[1], id(exp[1]), got, id(got)))
        else:
            _, k, E, _ = exp
            if err is None:
                raise Mismatch('missing-error', '%s: reference fails at %d with %r, glom returned %r'
                               % (where, k, E, got))
            if err.part_idx != k:
                raise Mismatch('wrong-part-idx', '%s: first failing segment is %d, error says %r'
                               % (where, k, err.part_idx))
            if type(err.exc) is not type(E) or err.exc.args != E.args:
                raise Mismatch('wrong-carried-exception', '%s: expected %r, carried %r' % (where, E, err.exc))
            try:
                pvals = tuple(Path(err.path).values()) if not isinstance(err.path, Path) else tuple(err.path.values())
            except Exception as e2:
                raise Mismatch('bad-path-attr', '%s: error.path unusable: %r' % (where, e2))
            if pvals != tuple(s for _, s in steps):
                raise Mismatch('wrong-path-attr', '%s: error.path is %r' % (where, err.path))
            _catchable(target, spec, where)
        if got_log != exp_log:
            raise Mismatch('access-log', '%s: expected accesses %r, observed %r' % (where, exp_log, got_log))
        d = tg.snapshot_diff(snap, tg.snapshot(target))
        if d:
            raise Mismatch('target-mutated', '%s: %s' % (where, d))
    ctx.outcome([exp[0], exp[1] if exp[0] == 'err' else repr(exp[1])[:80], sps])


def _catchable(target, spec, where):
    """real except clauses, one per documented base class (two evaluations each run two clauses)"""
    caught = []
    for first, second in ((KeyError, GlomError), (AttributeError, IndexError)):
        try:
            try:
                glom.glom(target, spec)
            except first as e:
                caught.append(first)
                raise
            raise Mismatch('nondeterministic', '%s: second evaluation did not fail' % where)
        except second as e:
            caught.append(second)
            if not isinstance(e, PathAccessError):
                raise Mismatch('not-pae', '%s: caught %r' % (where, type(e)))
        except Mismatch:
            raise
        except Exception as e:
            raise Mismatch('not-catchable', '%s: not catchable as %s: %r' % (where, second.__name__, type(e).__mro__))
    if caught != [KeyError, GlomError, AttributeError, IndexError]:
        raise Mismatch('not-catchable', '%s: except clauses entered: %r' % (where, caught))


# ---------------------------------------------------------------------------
# "the access registered for each intermediate value's type": a custom get handler registered on a Glommer

def lower_get(obj, key):
    """registered access for Slots objects: attribute lookup by lower-cased name"""
    return getattr(obj, str(key).lower())


def gen_registered(draw):
    def node(d):
        if d <= 0 or draw(st.integers(0, 3)) == 0:
            return ['i', draw(st.integers(0, 9))]
        tag = draw(st.sampled_from(['slots', 'slotsc', 'slotsc', 'dict']))
        if tag == 'dict':
            return ['dict', [[k, node(d - 1)] for k in draw(st.lists(st.sampled_from(['a', 'b']), max_size=2, unique=True))]]
        return [tag, [[k, node(d - 1)] for k in draw(st.lists(st.sampled_from(['a', 'b', 'c']), min_size=1, max_size=3, unique=True))]]
    target = ['slotsc', [['a', node(2)], ['b', node(2)]]]
    paths = [draw(st.lists(st.sampled_from(['a', 'b', 'c', 'A', 'B', 'zz']), min_size=1, max_size=3)) for _ in range(draw(st.integers(2, 5)))]
    return {'target': target, 'paths': paths, 'register_at': draw(st.integers(0, 4)),
            'exact': draw(st.sampled_from([False, False, True]))}


def ref_registered(target, segs, registered, exact):
    cur = target
    for k, seg in enumerate(segs):
        try:
            if isinstance(cur, dict):
                cur = cur[seg]
            elif isinstance(cur, tg.Slots) and registered and (not exact or type(cur) is tg.Slots):
                cur = lower_get(cur, seg)
            else:
                cur = getattr(cur, seg)
        except Exception as e:
            return ('err', k, type(e).__name__)
    return ('ok', cur)


def check_registered(recipe, ctx):
    g = glom.Glommer()
    registered = False
    ctx.nontrivial(0 < recipe['register_at'] < len(recipe['paths']))
    for i, segs in enumerate(recipe['paths']):
        if i == recipe['register_at']:
            g.register(tg.Slots, get=lower_get, exact=recipe['exact'])
            registered = True
        target = tg.build(recipe['target']).obj
        exp = ref_registered(target, segs, registered, recipe['exact'])
        spec = '.'.join(segs) if i % 2 == 0 else Path(*segs)
        where = 'call #%d (handler for Slots %sregistered before call #%d): glom(%r, %r)' % (
            i, 'exactly ' if recipe['exact'] else '', recipe['register_at'], target, spec)
        try:
            got = ('ok', g.glom(target, spec))
        except PathAccessError as e:
            got = ('err', e.part_idx, type(e.exc).__name__)
        except Exception as e:
            raise Mismatch('wrong-exception-class', '%s: %s: %r' % (where, type(e).__name__, e))
        ctx.label('exp-' + exp[0], 'registered' if registered else 'not-yet-registered')
        if exp[0] != got[0] or (exp[0] == 'err' and exp != got) or (exp[0] == 'ok' and not tg.same(exp[1], got[1])):
            raise Mismatch('registered-access', '%s: expected %r, got %r' % (where, exp, got))
    ctx.outcome([recipe['paths'], recipe['register_at']])


SUBS = [
    Sub('walk', check, gen=gen, quick=6000, thorough=15000,
        floors={'exp-ok': 0.2, 'exp-err': 0.2, 'fail-at-k>=1': 0.08, 'spelling-str': 0.07, 'spelling-t': 0.01}),
    Sub('registered', check_registered, gen=gen_registered, quick=1200, thorough=5000,
        floors={'registered': 0.3, 'not-yet-registered': 0.1}),
]
