"""C01 — Path access returns the addressed object or pinpoints the failing segment.

Generator: a target recipe, then a path produced by *walking the built target*:
at each position a segment valid for the current value (p~0.8) or an invalid one
of a chosen kind; after the first invalid segment 0-3 arbitrary further
segments.  The same logical path is evaluated in every spelling it admits
(dotted string, Path(...), pure T, Path mixed with T chunks).
Two families of failing segments are constructed rather than left to the list of invalid segments:
near misses (near_misses(): another spelling / another type of an existing mapping key - '0' beside the key 0,
1 beside '1', 'A' or ' a ' beside 'a' - and the two indexes just outside a sequence; one case in five is built for
them: mapping at the root, integer keys / digit strings / re-spelt strings side by side) and slice steps
(op 'S' = T[a:b:c], applied to every kind of value: sliced sequences and strings, refused slices - step 0, bounds
that are no integers - and values that cannot be sliced at all: mappings, None, numbers, attribute objects).

Oracle: refwalk() below - a 15-line walker written from the statement
(mapping key / int-coerced sequence index / otherwise attribute).
"""
from hypothesis import strategies as st

import glom
from glom import Path, T, PathAccessError, GlomError

from ..runner import Sub, Mismatch
from .. import runner as runner_mod
from .. import targets as tg

PROPERTY = 'C01'
RULE = ('targets: recursive recipes over dict/OrderedDict/list/tuple/attribute objects/scalars/None '
        '(empty, shared and cyclic sub-objects, recording subclasses); paths: 0-6 segments obtained by '
        'walking the target, valid or invalid at every position, each evaluated in every spelling it '
        'admits; near-miss segments (twin spellings of mapping keys, edge indexes) and T slice steps on every kind '
        'of value are constructed classes. Non-trivial = path length >= 2 and (first failure at segment k >= 1, or success '
        'through >= 2 different container kinds). Distinct = distinct recipe hash.')
ASSUMPTIONS = [
    'reference walker refwalk() transcribes the statement: mapping -> cur[seg], list/tuple -> cur[int(seg)], else getattr',
    'identity is required for containers; immutable atoms and bound methods are compared by == (Python gives no identity guarantee)',
    'the value of a FINAL slice step on a list/tuple is built anew by Python on every evaluation: same type, same length and the very same elements are required instead of identity',
    'targets have well-behaved __eq__/__repr__; recording subclasses of dict/list/object log item/attribute access',
]
BOUNDS = {'quick': {'depth': 4, 'width': 3, 'path_len': 6}, 'thorough': {'depth': 5, 'width': 4, 'path_len': 8}}

MAPPING = (dict,)
SEQ = (list, tuple)


def kind_of(v):
    if isinstance(v, MAPPING):
        return 'map'
    if isinstance(v, SEQ):
        return 'seq'
    return 'attr'


def seg_value(op, seg):
    """the segment as glom sees it: an 'S' step carries its slice as the JSON list [start, stop, step]"""
    return slice(*seg) if op == 'S' else seg


def ref_step(cur, op, seg):
    if op == 'S':
        return cur[slice(*seg)]
    if op == 'P':
        k = kind_of(cur)
        if k == 'map':
            return cur[seg]
        if k == 'seq':
            return cur[int(seg)]
        return getattr(cur, seg)
    if op == '[':
        return cur[seg]
    return getattr(cur, seg)


def refwalk(target, steps):
    """returns ('ok', obj, None, kinds, values) or ('err', k, exc, kinds, values);
    values[j] is the value segment j was applied to"""
    cur = target
    kinds = []
    vals = []
    for k, (op, seg) in enumerate(steps):
        kinds.append(kind_of(cur))
        vals.append(cur)
        try:
            cur = ref_step(cur, op, seg)
        except Exception as e:
            return ('err', k, e, kinds, vals)
    return ('ok', cur, None, kinds, vals)


INVALID_SEGS = ['zz', 'missing', '9', '-9', 'x y', '', '1.5', 99, -99, None]
ATTRS = ['a', 'b', 'c', 'x', 'real', 'zz']


def near_misses(cur):
    """[(class, segment)]: segments that do NOT address anything in `cur` but sit next to something that does -
    another spelling / another type of an existing mapping key ("mapping key": the segment as written, no coercion:
    {0: x} has no key '0', {'1': x} has no key 1, {'a': x} has no key 'A' or ' a '), and the two indexes just outside
    a sequence.  Every one of them must fail at this segment; which ones exist depends on the value, so the generator
    asks for them here and the check labels them with the same function."""
    out = []
    k = kind_of(cur)
    if k == 'map':
        for key in dict.keys(cur):
            cands = []
            if type(key) is int:
                cands += [('twin-str-of-int-key', str(key)), ('twin-str-of-int-key', ' %d ' % key)]
                if key >= 0:
                    cands.append(('twin-str-of-int-key', '0%d' % key))
            elif type(key) is str:
                try:
                    cands.append(('twin-int-of-str-key', int(key)))
                except ValueError:
                    pass
                for other in (key.strip(), ' %s ' % key, key.swapcase()):
                    if other != key:
                        cands.append(('twin-respelt-str-key', other))
            for tag, c in cands:
                if not dict.__contains__(cur, c) and (tag, c) not in out:
                    out.append((tag, c))
    elif k == 'seq':
        n = len(cur)
        for c in (n, -n - 1):
            out += [('edge-index', c), ('edge-index', str(c))]
    return out


def near_miss_class(cur, op, seg):
    if op in ('P', '['):
        for tag, c in near_misses(cur):
            if type(c) is type(seg) and c == seg:
                return tag
    return None


TWIN_KEYS = ['a', 'B', 'k.d', '', '0', '1', '7', ' 1 ', '-1', 0, 1, 2, 7, 10, -1]
SLICE_BOUNDS = [None, None, 0, 1, 2, -1, -2, 5]
SLICE_STEPS = [None, None, None, 1, 2, -1]
SLICEABLE = (list, tuple, str, bytes)


def draw_slice(draw, cur, valid):
    """[start, stop, step] of an 'S' step.  valid (cur is a sequence or a string): integer bounds and a non-zero step;
    otherwise, on a sliceable value, a slice that Python refuses (step 0 / a bound that is no integer); on any other
    value (mapping, None, number, attribute object) every slice is refused, so any of the three kinds"""
    if valid:
        kind = 'plain'
    elif isinstance(cur, SLICEABLE):
        kind = draw(st.sampled_from(['step0', 'step0', 'badbound']))
    else:
        kind = draw(st.sampled_from(['plain', 'plain', 'step0', 'badbound']))
    sl = [draw(st.sampled_from(SLICE_BOUNDS)), draw(st.sampled_from(SLICE_BOUNDS)), draw(st.sampled_from(SLICE_STEPS))]
    if kind == 'step0':
        sl[2] = 0
    elif kind == 'badbound':
        sl[draw(st.sampled_from([0, 1]))] = draw(st.sampled_from(['a', '1', 1.5]))
    return sl


def gen(draw):
    big = runner_mod.thorough()
    depth, width = (5, 4) if big else (4, 3)
    # one case in five aims at the twin keys of mappings: the root is a mapping, mappings hold integer keys, digit
    # strings and re-spelt strings side by side, and at a mapping the walk takes a near miss with p = 1/2
    twin = draw(st.sampled_from([False, False, False, False, True]))
    if twin:
        ks = draw(st.lists(st.sampled_from(TWIN_KEYS), min_size=1, max_size=width, unique_by=repr))
        trecipe = [draw(st.sampled_from(['dict', 'odict', 'rdict'])),
                   [[k, tg.target_recipes(draw, depth=depth - 1, width=width, keys=TWIN_KEYS)] for k in ks]]
    else:
        trecipe = tg.target_recipes(draw, depth=depth, width=width)
    b = tg.build(trecipe)
    cur = b.obj
    steps = []
    n = draw(st.integers(1 if twin else 0, 8 if big else 6))
    failed = False
    for _ in range(n):
        op = draw(st.sampled_from(['P', 'P', 'P', 'P', 'P', '[', '.', 'S']))
        valid = (not failed) and draw(st.integers(0, 9)) < 8
        seg = None
        aimed = bool(twin and not failed and op in ('P', '[') and kind_of(cur) == 'map' and near_misses(cur)
                     and draw(st.booleans()))
        if aimed:
            valid = False
        if valid:
            k = kind_of(cur)
            if op == 'S':
                if isinstance(cur, SLICEABLE) and draw(st.integers(0, 3)):
                    seg = draw_slice(draw, cur, True)
            elif k == 'map' and len(cur) and op in ('P', '['):
                seg = draw(st.sampled_from(list(dict.keys(cur))))
            elif k == 'seq' and len(cur) and op in ('P', '['):
                i = draw(st.integers(-len(cur), len(cur) - 1))
                if op == 'P' and draw(st.booleans()):
                    seg = draw(st.sampled_from([str(i), ' %d ' % i, '%d' % i]))
                else:
                    seg = i
            elif op in ('P', '.') and k == 'attr':
                names = [a for a in getattr(cur, '__dict__', {}) if not a.startswith('_')]
                if names:
                    seg = draw(st.sampled_from(sorted(names)))
                elif isinstance(cur, (int, float)) and not isinstance(cur, bool):
                    seg = 'real'
            if seg is None:
                valid = False
        if not valid:
            near = near_misses(cur) if (not failed and op in ('P', '[')) else []
            if op == 'S':
                seg = draw_slice(draw, cur, False)
            elif near and (aimed or draw(st.booleans())):
                tag = draw(st.sampled_from(sorted(set(t for t, _ in near))))      # first the class, then one of its segments
                seg = draw(st.sampled_from([c for t, c in near if t == tag]))
            elif op == '.':
                seg = draw(st.sampled_from(ATTRS))
            else:
                seg = draw(st.sampled_from(INVALID_SEGS + ATTRS))
        if op == '.' and not (isinstance(seg, str) and seg.isidentifier() and not seg.startswith('__')):
            op = 'P'
        steps.append([op, seg])
        if not failed:
            try:
                cur = ref_step(cur, op, seg)
            except Exception:
                failed = True
    return {'target': trecipe, 'steps': steps}


def spellings(steps):
    out = []
    ops = [s[0] for s in steps]
    segs = [s[1] for s in steps]
    if steps and all(o == 'P' and isinstance(s, str) and '.' not in s and s not in ('*', '**')
                     for o, s in steps):
        out.append('str')
        out.append('strsub')       # the same dotted text as an instance of a str subclass (e.g. a str-Enum member)
    out.append('path')
    if steps and all(o in ('[', '.', 'S') for o in ops):
        out.append('t')
    if all(o == 'P' for o in ops):
        out.append('path-nested')
    return out


class StrSub(str):
    pass


def make_spec(steps, spelling):
    if spelling == 'str':
        return '.'.join(s for _, s in steps)
    if spelling == 'strsub':
        return StrSub('.'.join(s for _, s in steps))
    if spelling == 't':
        t = T
        for op, seg in steps:
            t = t[seg_value(op, seg)] if op in ('[', 'S') else getattr(t, seg)
        return t
    if spelling == 'path-nested':
        half = len(steps) // 2
        return Path(Path(*[s for _, s in steps[:half]]), Path(*[s for _, s in steps[half:]]))
    parts = []
    for op, seg in steps:
        if op == 'P':
            parts.append(seg)
        elif op in ('[', 'S'):
            parts.append(T[seg_value(op, seg)])
        else:
            parts.append(getattr(T, seg))
    return Path(*parts)


def _jsonable_steps(steps):
    return [(op, seg) for op, seg in steps]


def check(recipe, ctx):
    steps = [(op, seg) for op, seg in recipe['steps']]
    b = tg.build(recipe['target'])
    target = b.obj
    snap = tg.snapshot(target)
    b.log.reset()
    exp = refwalk(target, steps)
    exp_log = list(b.log)
    if tg.snapshot_diff(snap, tg.snapshot(target)):
        raise Mismatch('harness', 'reference walk mutated the target')
    ctx.label('exp-' + exp[0], 'len-%d' % min(len(steps), 3))
    if exp[0] == 'err':
        ctx.label('fail-at-%s' % ('0' if exp[1] == 0 else 'k>=1'))
        op_k, seg_k = steps[exp[1]]
        nm = near_miss_class(exp[4][exp[1]], op_k, seg_k)
        if nm:
            # (the first failing segment is a near miss of the value it is applied to)
            ctx.label('near-miss', nm, '%s-%s' % (nm, 'P' if op_k == 'P' else 'T'))
    # slice steps that are reached, by the kind of value they are applied to
    ctx.label(*sorted(set('slice-on-%s' % ('text' if isinstance(v, (str, bytes)) else 'other' if kd == 'attr' else kd)
                          for (o, _), kd, v in zip(steps, exp[3], exp[4]) if o == 'S')))
    if exp[0] == 'err' and steps[exp[1]][0] == 'S':
        ctx.label('slice-refused', 'slice-refused-%s' % type(exp[2]).__name__)
    nt = len(steps) >= 2 and ((exp[0] == 'err' and exp[1] >= 1) or
                              (exp[0] == 'ok' and len(set(exp[3])) >= 2))
    ctx.nontrivial(nt)
    sps = spellings(steps)
    for sp in sps:
        ctx.label('spelling-' + sp)
        spec = make_spec(steps, sp)
        b.log.reset()
        try:
            got = glom.glom(target, spec)
            err = None
        except PathAccessError as e:
            got, err = None, e
        except Exception as e:
            raise Mismatch('wrong-exception-class',
                           '%s: expected %s, glom raised %s: %r' % (sp, exp[0], type(e).__name__, e))
        got_log = list(b.log)
        where = 'spelling=%s steps=%r' % (sp, steps)
        if exp[0] == 'ok':
            if err is not None:
                raise Mismatch('spurious-error', '%s: reference succeeds, glom raised %r' % (where, err))
            if not (tg.same(got, exp[1]) or (steps and steps[-1][0] == 'S' and same_slice(got, exp[1]))):
                raise Mismatch('wrong-object', '%s: expected the object %r (id %x), got %r (id %x)'
                               % (where, exp[1], id(exp[1]), got, id(got)))
        else:
            _, k, E, _, _ = exp
            if err is None:
                raise Mismatch('missing-error', '%s: reference fails at %d with %r, glom returned %r'
                               % (where, k, E, got))
            if err.part_idx != k:
                raise Mismatch('wrong-part-idx', '%s: first failing segment is %d, error says %r'
                               % (where, k, err.part_idx))
            if type(err.exc) is not type(E) or err.exc.args != E.args:
                raise Mismatch('wrong-carried-exception', '%s: expected %r, carried %r' % (where, E, err.exc))
            try:
                pvals = tuple(Path(err.path).values()) if not isinstance(err.path, Path) else tuple(err.path.values())
            except Exception as e2:
                raise Mismatch('bad-path-attr', '%s: error.path unusable: %r' % (where, e2))
            if pvals != tuple(seg_value(o, s) for o, s in steps):
                raise Mismatch('wrong-path-attr', '%s: error.path is %r' % (where, err.path))
            _catchable(target, spec, where)
        if got_log != exp_log:
            raise Mismatch('access-log', '%s: expected accesses %r, observed %r' % (where, exp_log, got_log))
        d = tg.snapshot_diff(snap, tg.snapshot(target))
        if d:
            raise Mismatch('target-mutated', '%s: %s' % (where, d))
    ctx.outcome([exp[0], exp[1] if exp[0] == 'err' else repr(exp[1])[:80], sps])


def same_slice(got, exp):
    """the value of a final slice step: Python builds the slice of a list / tuple anew on every evaluation, so there
    is no single "very object"; it must have the same type and hold the very same elements in the same order"""
    return (type(got) is type(exp) and isinstance(exp, (list, tuple)) and len(got) == len(exp)
            and all(tg.same(a, b) for a, b in zip(got, exp)))


def _catchable(target, spec, where):
    """real except clauses, one per documented base class (two evaluations each run two clauses)"""
    caught = []
    for first, second in ((KeyError, GlomError), (AttributeError, IndexError)):
        try:
            try:
                glom.glom(target, spec)
            except first as e:
                caught.append(first)
                raise
            raise Mismatch('nondeterministic', '%s: second evaluation did not fail' % where)
        except second as e:
            caught.append(second)
            if not isinstance(e, PathAccessError):
                raise Mismatch('not-pae', '%s: caught %r' % (where, type(e)))
        except Mismatch:
            raise
        except Exception as e:
            raise Mismatch('not-catchable', '%s: not catchable as %s: %r' % (where, second.__name__, type(e).__mro__))
    if caught != [KeyError, GlomError, AttributeError, IndexError]:
        raise Mismatch('not-catchable', '%s: except clauses entered: %r' % (where, caught))


# ---------------------------------------------------------------------------
# "the access registered for each intermediate value's type": a custom get handler registered on a Glommer

def lower_get(obj, key):
    """registered access for Slots objects: attribute lookup by lower-cased name"""
    return getattr(obj, str(key).lower())


def gen_registered(draw):
    def node(d):
        if d <= 0 or draw(st.integers(0, 3)) == 0:
            return ['i', draw(st.integers(0, 9))]
        tag = draw(st.sampled_from(['slots', 'slotsc', 'slotsc', 'dict']))
        if tag == 'dict':
            return ['dict', [[k, node(d - 1)] for k in draw(st.lists(st.sampled_from(['a', 'b']), max_size=2, unique=True))]]
        return [tag, [[k, node(d - 1)] for k in draw(st.lists(st.sampled_from(['a', 'b', 'c']), min_size=1, max_size=3, unique=True))]]
    target = ['slotsc', [['a', node(2)], ['b', node(2)]]]
    paths = [draw(st.lists(st.sampled_from(['a', 'b', 'c', 'A', 'B', 'zz']), min_size=1, max_size=3)) for _ in range(draw(st.integers(2, 5)))]
    return {'target': target, 'paths': paths, 'register_at': draw(st.integers(0, 4)),
            'exact': draw(st.sampled_from([False, False, True]))}


def ref_registered(target, segs, registered, exact):
    cur = target
    for k, seg in enumerate(segs):
        try:
            if isinstance(cur, dict):
                cur = cur[seg]
            elif isinstance(cur, tg.Slots) and registered and (not exact or type(cur) is tg.Slots):
                cur = lower_get(cur, seg)
            else:
                cur = getattr(cur, seg)
        except Exception as e:
            return ('err', k, type(e).__name__)
    return ('ok', cur)


def check_registered(recipe, ctx):
    g = glom.Glommer()
    registered = False
    ctx.nontrivial(0 < recipe['register_at'] < len(recipe['paths']))
    for i, segs in enumerate(recipe['paths']):
        if i == recipe['register_at']:
            g.register(tg.Slots, get=lower_get, exact=recipe['exact'])
            registered = True
        target = tg.build(recipe['target']).obj
        exp = ref_registered(target, segs, registered, recipe['exact'])
        spec = '.'.join(segs) if i % 2 == 0 else Path(*segs)
        where = 'call #%d (handler for Slots %sregistered before call #%d): glom(%r, %r)' % (
            i, 'exactly ' if recipe['exact'] else '', recipe['register_at'], target, spec)
        try:
            got = ('ok', g.glom(target, spec))
        except PathAccessError as e:
            got = ('err', e.part_idx, type(e.exc).__name__)
        except Exception as e:
            raise Mismatch('wrong-exception-class', '%s: %s: %r' % (where, type(e).__name__, e))
        ctx.label('exp-' + exp[0], 'registered' if registered else 'not-yet-registered')
        if exp[0] != got[0] or (exp[0] == 'err' and exp != got) or (exp[0] == 'ok' and not tg.same(exp[1], got[1])):
            raise Mismatch('registered-access', '%s: expected %r, got %r' % (where, exp, got))
    ctx.outcome([recipe['paths'], recipe['register_at']])


SUBS = [
    Sub('walk', check, gen=gen, quick=6000, thorough=15000,
        floors={'exp-ok': 0.2, 'exp-err': 0.2, 'fail-at-k>=1': 0.08, 'spelling-str': 0.07, 'spelling-t': 0.01,
                'twin-str-of-int-key-P': 0.009, 'twin-int-of-str-key': 0.006, 'twin-respelt-str-key': 0.011,
                'edge-index': 0.022, 'slice-on-map': 0.025, 'slice-on-seq': 0.013,
                'slice-refused-KeyError': 0.025, 'slice-refused-TypeError': 0.012, 'slice-refused-ValueError': 0.004}),
    Sub('registered', check_registered, gen=gen_registered, quick=1200, thorough=5000,
        floors={'registered': 0.3, 'not-yet-registered': 0.1}),
]
