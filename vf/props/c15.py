"""C15 — Fold, Sum, Flatten, Merge equal plain-Python reductions and mutate no input.

Generator: iterables (list, tuple, generator, set) of ints / exactly representable floats / lists /
tuples / strs / dicts (empty, singleton, nested to depth n); init in {int, float, list, tuple, str,
dict, OrderedDict, frozenset, counting factories}; op in {iadd, add, mul, frozenset.union,
recording op}; Flatten eager / lazy; flatten(levels=0..3); merge(); sub-spec != T; the same spec
object evaluated 2-3 times; non-iterable targets.

Oracle: functools.reduce / sum / itertools.chain.from_iterable / dict.update.
"""
import operator
import functools
import itertools
import collections

from hypothesis import strategies as st

import glom
from glom import Fold, Sum, Flatten, Merge, flatten, merge, FoldError, T, GlomError

from ..runner import Sub, Mismatch
from .. import targets as tg

PROPERTY = 'C15'
RULE = ('element sequences of a drawn element type with a type-compatible (p~0.9) init/op, wrapped as list/tuple/generator/set, '
        'optionally behind a sub-spec; each spec object is evaluated 2-3 times on fresh copies of the data. '
        'Non-trivial = >= 2 elements of container type, or levels >= 2, or a counting factory with repeated evaluation.')
ASSUMPTIONS = [
    'reference: functools.reduce(op, iter(x), init()), itertools.chain.from_iterable, dict.update',
    'floats are dyadic rationals with few elements, so float arithmetic is exact and == is a sound comparison',
    'a non-iterable *element* raises whatever the operator raises: only the exception class is compared',
    'the accumulator (top-level result) must be a fresh object; elements of elements may be shared with the input by design',
]


class CountingInit(object):
    def __init__(self, base):
        self.base = base
        self.calls = 0

    def __call__(self):
        self.calls += 1
        return self.base()

    def __repr__(self):
        return '<counting %s>' % self.base.__name__


class RecOp(object):
    def __init__(self):
        self.calls = []

    def __call__(self, acc, v):
        self.calls.append(repr(v))
        return acc + v

    def __repr__(self):
        return '<recop>'


INITS = {'int': int, 'float': float, 'list': list, 'tuple': tuple, 'str': str, 'dict': dict,
         'odict': collections.OrderedDict, 'fset': frozenset}
def last_odd(acc, v):
    """an op that legitimately returns None for some steps (None is a value like any other for reduce)"""
    return v if isinstance(v, int) and v % 2 else None


OPS = {'iadd': operator.iadd, 'add': operator.add, 'mul': operator.mul, 'union': frozenset.union, 'lastodd': last_odd}


def make_init(name):
    if name.startswith('count-'):
        return CountingInit(INITS[name[6:]])
    return INITS[name]


def make_op(name):
    if name == 'rec':
        return RecOp()
    return OPS[name]


def gen_elems(draw, etype, n):
    if etype == 'int':
        return [['i', draw(st.integers(-5, 9))] for _ in range(n)]
    if etype == 'float':
        return [['f', draw(st.sampled_from([0.5, 1.5, -2.0, 4.0, 0.25]))] for _ in range(n)]
    if etype == 'str':
        return [['s', draw(st.sampled_from(['', 'a', 'bc', 'é']))] for _ in range(n)]
    if etype == 'list':
        return [['list', [['i', draw(st.integers(0, 5))] for _ in range(draw(st.integers(0, 3)))]] for _ in range(n)]
    if etype == 'tuple':
        return [['tuple', [['i', draw(st.integers(0, 5))] for _ in range(draw(st.integers(0, 3)))]] for _ in range(n)]
    if etype == 'dict':
        return [['dict', [[k, ['i', draw(st.integers(0, 9))]] for k in
                          draw(st.lists(st.sampled_from(['a', 'b', 'c']), max_size=3, unique=True))]] for _ in range(n)]
    if etype == 'strs':       # strings are iterables of their characters like any other element, mixed with lists of strings
        return [['s', draw(st.sampled_from(['', 'a', 'bc', 'def']))] if draw(st.integers(0, 2)) else
                ['list', [['s', draw(st.sampled_from(['x', 'yz']))] for _ in range(draw(st.integers(0, 2)))]] for _ in range(n)]
    if etype == 'nested':     # lists of lists of lists (for levels >= 2)
        def nest(d):
            if d == 0:
                return ['i', draw(st.integers(0, 9))]
            return ['list', [nest(d - 1) for _ in range(draw(st.integers(0, 2)))]]
        return [nest(3) for _ in range(n)]
    raise ValueError(etype)


COMPAT = {
    'int': (['int', 'float', 'count-int'], ['iadd', 'add', 'mul', 'rec', 'lastodd']),
    'float': (['float', 'int', 'count-float'], ['iadd', 'add', 'mul', 'rec']),
    'str': (['str'], ['iadd', 'add', 'rec']),
    'strs': (['list'], ['iadd']),
    'list': (['list', 'count-list'], ['iadd', 'add', 'rec']),
    'tuple': (['tuple'], ['iadd', 'add', 'rec']),
    'dict': (['dict', 'odict', 'count-dict'], ['update']),
    'nested': (['list', 'count-list'], ['iadd']),
}


def gen(draw):
    kind = draw(st.sampled_from(['fold', 'fold', 'sum', 'flatten', 'flatten-lazy', 'merge', 'flatten_fn', 'merge_fn', 'fold-union']))
    if kind in ('merge', 'merge_fn'):
        etype = 'dict'
    elif kind in ('flatten', 'flatten-lazy'):
        etype = draw(st.sampled_from(['list', 'tuple', 'nested', 'list', 'strs']))
    elif kind == 'flatten_fn':
        etype = draw(st.sampled_from(['nested', 'nested', 'list']))
    elif kind == 'fold-union':
        etype = 'list'
    else:
        etype = draw(st.sampled_from(['int', 'float', 'str', 'list', 'tuple']))
    n = draw(st.integers(0, 4))
    inits, ops = COMPAT[etype]
    init = draw(st.sampled_from(inits))
    op = draw(st.sampled_from(ops))
    if draw(st.integers(0, 9)) == 0 and etype != 'dict':      # deliberately mismatched
        init = draw(st.sampled_from(['int', 'list', 'str', 'dict']))
    if kind == 'sum':
        op = 'iadd'
    if kind in ('flatten', 'flatten-lazy', 'flatten_fn'):
        op = 'iadd'
        if etype == 'tuple':
            init = draw(st.sampled_from(['list', 'tuple']))
    if kind == 'fold-union':
        init, op = 'fset', 'union'
    return {'kind': kind, 'etype': etype, 'elems': gen_elems(draw, etype, n),
            'container': draw(st.sampled_from(['list', 'list', 'tuple', 'gen', 'set' if etype in ('int', 'str') else 'list'])),
            'init': init, 'op': op, 'levels': draw(st.integers(0, 3)),
            'subspec': draw(st.sampled_from([None, None, 'key', 'listspec', 'listspec'])),
            'stop_at': draw(st.integers(0, 6)), 'skip_at': draw(st.integers(0, 6)),
            'repeat': draw(st.integers(2, 3)),
            'non_iterable': draw(st.sampled_from([True] + [False] * 14))}


def build_data(recipe):
    """returns (target, source list (for snapshots), elements)"""
    elems = [tg.build(e).obj for e in recipe['elems']]
    src = list(elems)
    c = recipe['container']
    if c == 'list':
        data = src
    elif c == 'tuple':
        data = tuple(src)
    elif c == 'set':
        data = set(src)
    else:
        data = (x for x in src)
    return data, src


class ItemSpec(object):
    """item spec of a one-element list sub-spec: passes items through, SKIPs the skip_at-th and STOPs at the stop_at-th"""
    def __init__(self, stop_at, skip_at):
        self.stop_at, self.skip_at, self.n = stop_at, skip_at, -1

    def __call__(self, item):
        self.n += 1
        if self.n == self.stop_at:
            return glom.STOP
        if self.n == self.skip_at:
            return glom.SKIP
        return item

    def __repr__(self):
        return 'item(stop@%d, skip@%d)' % (self.stop_at, self.skip_at)


def list_subspec(recipe):
    return [ItemSpec(recipe.get('stop_at', 99), recipe.get('skip_at', 99))]


def apply_listspec(recipe, items):
    out = []
    for n, x in enumerate(items):
        if n == recipe.get('stop_at', 99):
            break
        if n == recipe.get('skip_at', 99):
            continue
        out.append(x)
    return out


def make_spec(recipe, init, op):
    kind = recipe['kind']
    sub = T if recipe['subspec'] is None else (T['k'] if recipe['subspec'] == 'key' else list_subspec(recipe))
    if kind in ('fold', 'fold-union'):
        return Fold(sub, init=init, op=op)
    if kind == 'sum':
        return Sum(sub, init=init)
    if kind == 'flatten':
        return Flatten(sub, init=init)
    if kind == 'flatten-lazy':
        return Flatten(sub, init='lazy')
    if kind == 'merge':
        return Merge(sub, init=init)
    return None


def reference(recipe, data, init, op):
    kind = recipe['kind']
    it = iter(data)
    if recipe['subspec'] == 'listspec':
        it = iter(apply_listspec(recipe, list(it)))       # iterate(glom(t, [item_spec])): SKIP omits, STOP truncates
    if kind in ('fold', 'fold-union', 'sum', 'flatten'):
        return functools.reduce(op, it, init())
    if kind == 'flatten-lazy':
        return list(itertools.chain.from_iterable(it))
    if kind in ('merge', 'merge_fn'):
        acc = init()
        for d in it:
            acc.update(d)
        return acc
    if kind == 'flatten_fn':
        levels = recipe['levels']
        if levels == 0:
            return list(it) if recipe['subspec'] == 'listspec' else data      # what the spec fetches, untouched
        cur = it
        for _ in range(levels - 1):
            cur = itertools.chain.from_iterable(cur)
        return functools.reduce(operator.iadd, cur, init())
    raise ValueError(kind)


def mutable_ids(v, acc=None, depth=3):
    acc = set() if acc is None else acc
    if isinstance(v, (list, dict, set)):
        acc.add(id(v))
    if depth and isinstance(v, (list, tuple)):
        for x in v:
            mutable_ids(x, acc, depth - 1)
    return acc


def check(recipe, ctx):
    kind = recipe['kind']
    ctx.label('kind-' + kind, 'etype-' + recipe['etype'], 'container-' + recipe['container'], 'subspec-%s' % recipe['subspec'])
    if recipe['non_iterable']:
        ctx.label('non-iterable-target')
        for bad in (5, None, 2.5, object()):
            init = make_init(recipe['init'] if recipe['init'] != 'update' else 'dict')
            try:
                spec = make_spec(recipe, init, make_op(recipe['op'] if recipe['op'] != 'update' else 'iadd'))
            except Exception:
                return
            target = {'k': bad} if recipe['subspec'] == 'key' else bad
            if recipe['subspec'] == 'listspec':
                return
            try:
                kw = {} if recipe['subspec'] != 'key' else {'spec': T['k']}
                if kind == 'flatten_fn':
                    r = flatten(target, levels=max(recipe['levels'], 1), **kw)
                elif kind == 'merge_fn':
                    r = merge(target, **kw)
                else:
                    r = glom.glom(target, spec)
                # (also for the lazy spelling the refusal comes from the glom() call itself, not from the first next()
                # on an object handed back as if everything were fine)
            except FoldError:
                continue
            except Exception as e:
                raise Mismatch('non-iterable-not-folderror', '%s on non-iterable %r raised %s: %r'
                               % (kind, bad, type(e).__name__, e))
            raise Mismatch('non-iterable-accepted', '%s on non-iterable %r returned %r' % (kind, bad, r))
        ctx.outcome('FoldError')
        return
    # one init/op object per world, re-used across the repeated evaluations
    opname = recipe['op']
    g_init = make_init(recipe['init'])
    g_op = make_op(opname) if opname != 'update' else None
    try:
        spec = make_spec(recipe, g_init, g_op)
    except Exception as e:
        # construction errors (e.g. Merge with an init that has no update) are legitimate rejections
        ctx.label('construction-rejected')
        return
    results = []
    nontriv = (len(recipe['elems']) >= 2 and recipe['etype'] in ('list', 'tuple', 'dict', 'nested')) or \
        (kind == 'flatten_fn' and recipe['levels'] >= 2) or recipe['init'].startswith('count-')
    ctx.nontrivial(nontriv)
    for rep in range(recipe['repeat']):
        # reference world
        r_init = make_init(recipe['init'])
        r_op = make_op(opname) if opname != 'update' else None
        rdata, rsrc = build_data(recipe)
        try:
            exp = ('ok', reference(recipe, rdata, r_init, r_op))
        except Exception as e:
            exp = ('err', e)
        # glom world
        if recipe['subspec'] == 'listspec' and spec is not None:
            spec = make_spec(recipe, g_init, g_op)       # the item spec counts items: a fresh one per evaluation
        data, src = build_data(recipe)
        snap = tg.snapshot(src)
        target = {'k': data} if recipe['subspec'] == 'key' else data
        calls_before = g_init.calls if isinstance(g_init, CountingInit) else None
        where = '%s spec=%r elems=%r container=%s evaluation #%d' % (kind, spec, src, recipe['container'], rep + 1)
        try:
            if kind == 'flatten_fn':
                kw = {'levels': recipe['levels'], 'init': g_init}
                if recipe['subspec'] == 'key':
                    kw['spec'] = T['k']
                elif recipe['subspec'] == 'listspec':
                    kw['spec'] = list_subspec(recipe)
                got = ('ok', flatten(target, **kw))
            elif kind == 'merge_fn':
                kw = {'init': g_init}
                if recipe['subspec'] == 'key':
                    kw['spec'] = T['k']
                elif recipe['subspec'] == 'listspec':
                    kw['spec'] = list_subspec(recipe)
                got = ('ok', merge(target, **kw))
            else:
                got = ('ok', glom.glom(target, spec))
            if kind == 'flatten-lazy' and got[0] == 'ok':
                lazy_obj = got[1]
                if isinstance(lazy_obj, (list, tuple)):
                    raise Mismatch('lazy-not-lazy', '%s: lazy Flatten returned a %s' % (where, type(lazy_obj).__name__))
                got = ('ok', list(lazy_obj))
        except Mismatch:
            raise
        except Exception as e:
            got = ('err', e)
        ctx.label('exp-' + exp[0])
        if exp[0] == 'err':
            if got[0] != 'err':
                raise Mismatch('missing-error', '%s: the reduction raises %r, glom returned %r' % (where, exp[1], got[1]))
            if not isinstance(got[1], type(exp[1])) and not isinstance(got[1], GlomError):
                raise Mismatch('wrong-error-class', '%s: expected %r, got %r' % (where, exp[1], got[1]))
            return
        if got[0] == 'err':
            raise Mismatch('spurious-error', '%s: expected %r, glom raised %s: %r'
                           % (where, exp[1], type(got[1]).__name__, got[1]))
        e, g = exp[1], got[1]
        if kind == 'flatten_fn' and recipe['levels'] == 0:
            # zero levels of flattening: the fetched value itself (glom(target, spec)), untouched
            if g is not data and recipe['subspec'] != 'listspec':
                raise Mismatch('levels-0', '%s: levels=0 must return the value the spec fetches (here the object %r itself), got %r'
                               % (where, data, g))
            if recipe['subspec'] == 'listspec' and (type(e) is not type(g) or e != g):
                raise Mismatch('levels-0', '%s: levels=0 must return what the spec fetches: expected %r, got %r' % (where, e, g))
        else:
            if type(e) is not type(g) or e != g or (isinstance(e, dict) and list(e.items()) != list(g.items())):
                raise Mismatch('wrong-value', '%s: expected %r (%s), got %r (%s)'
                               % (where, e, type(e).__name__, g, type(g).__name__))
        # inputs untouched
        d = tg.snapshot_diff(snap, tg.snapshot(src))
        if d:
            raise Mismatch('input-mutated', '%s: %s' % (where, d))
        # init() called afresh exactly once per evaluation
        if calls_before is not None and kind != 'flatten-lazy':
            expected_calls = 1 if not (kind == 'flatten_fn' and recipe['levels'] == 0) else 0
            if kind == 'merge_fn':
                expected_calls = 2      # merge() builds a Merge spec per call, whose constructor probes init() once
            if g_init.calls - calls_before != expected_calls:
                raise Mismatch('init-calls', '%s: init() called %d times in this evaluation'
                               % (where, g_init.calls - calls_before))
        # recording op saw the elements in order
        if isinstance(g_op, RecOp) and kind == 'fold' and recipe['subspec'] != 'listspec':
            if g_op.calls[-len(src):] != [repr(x) for x in (list(data) if recipe['container'] == 'set' else src)] and src:
                if recipe['container'] != 'set':
                    raise Mismatch('op-order', '%s: op saw %r' % (where, g_op.calls[-len(src):]))
        # the accumulator is a fresh object: not an input, not a previous result
        if isinstance(g, (list, dict, set)) and not (kind == 'flatten_fn' and recipe['levels'] == 0):
            if id(g) in set(map(id, src)) or g is src or g is data:
                raise Mismatch('result-aliases-input', '%s: the result object is one of the inputs' % where)
            for prev in results:
                if prev is g:
                    raise Mismatch('results-share-state', '%s: two evaluations returned the same object' % where)
        results.append(g)
    if len(results) >= 2 and not (kind == 'flatten_fn' and recipe['levels'] == 0):
        for r in results[1:]:
            if r != results[0]:
                raise Mismatch('evaluations-differ', '%s %r: evaluations returned %r then %r' % (kind, spec, results[0], r))
    ctx.outcome([kind, repr(spec)[:80], repr(results[0])[:80] if results else None])


SUBS = [
    Sub('reduce', check, gen=gen, quick=6000, thorough=20000,
        floors={'exp-ok': 0.5, 'kind-flatten_fn': 0.05, 'kind-merge': 0.05, 'non-iterable-target': 0.02}),
]
