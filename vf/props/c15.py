"""C15 — Fold, Sum, Flatten, Merge equal plain-Python reductions and mutate no input.

Generator: iterables (list, tuple, generator, set) of ints / exactly representable floats / lists /
tuples / strs / dicts (empty, singleton, nested to depth n); init in {int, float, list, tuple, str,
dict, OrderedDict, frozenset, counting factories}; op in {iadd, add, mul, frozenset.union,
recording op}; Flatten eager / lazy; flatten(levels=0..3); merge(); sub-spec != T; the same spec
object evaluated 2-3 times; non-iterable targets.
Two constructed classes: (cls=vec) elements of a user class with the "0 + v is v" idiom (__radd__ returns self for 0,
__add__ / __iadd__ possibly returning an operand) and an in-place __iadd__, through Sum / Fold / Flatten / flatten() /
Group(Sum()) with init in {int, float, counting int}; (cls=unreg) an element that cannot be iterated, met WHILE folding
(by the lazy sub-spec Iter([T]) or inside op), next to the eager spelling [[T]] and to clean controls.
Sub-check plainop: Fold / Group(Fold) with op given as a named function of the operator module (add, concat, mul, or_, and_,
sub, xor and their in-place siblings) over accumulators list / deque / dict / OrderedDict / set / a class whose operator
pairs mean different things / immutable controls, with init handing out one prepared object on every call, a new equal
object per call, or the bare type; elements of the matching type, of a type only the in-place sibling accepts, or of a
type both refuse (see the comment above PLAIN_OPS).

Oracle: functools.reduce / sum / itertools.chain.from_iterable / dict.update.  For cls=vec the plain reduction is the one
builtins.sum performs (operator.add, never in place) on an independently built copy; the result is an input element
exactly where that reduction returns its own corresponding element.  For cls=unreg the plain reduction raises "this
element cannot be iterated": glom must raise UnregisteredTarget, and FoldError only for a target it cannot iterate.
"""
import operator
import functools
import itertools
import collections

from hypothesis import strategies as st

import glom
from glom import Fold, Sum, Flatten, Merge, flatten, merge, FoldError, T, GlomError, Iter, UnregisteredTarget
from glom.grouping import Group

from ..runner import Sub, Mismatch
from .. import targets as tg

PROPERTY = 'C15'
RULE = ('element sequences of a drawn element type with a type-compatible (p~0.9) init/op, wrapped as list/tuple/generator/set, '
        'optionally behind a sub-spec; each spec object is evaluated 2-3 times on fresh copies of the data. '
        'Non-trivial = >= 2 elements of container type, or levels >= 2, or a counting factory with repeated evaluation. '
        'plainop: accumulator type x named operator x init style (one shared object / new per call / type) x element shape; '
        'non-trivial = one of the constructed hazards (shared start, wider element, distinct operator pair) or >= 2 elements folded.')
ASSUMPTIONS = [
    'reference: functools.reduce(op, iter(x), init()), itertools.chain.from_iterable, dict.update',
    'floats are dyadic rationals with few elements, so float arithmetic is exact and == is a sound comparison',
    'a non-iterable *element* raises whatever the operator raises: only the exception class is compared',
    'the accumulator (top-level result) must be a fresh object; elements of elements may be shared with the input by design',
    'cls=vec: the reduction meant by "Sum equals sum" never applies an in-place operator to an object it did not create '
    '(reference: functools.reduce(operator.add, ...), which is what builtins.sum does); Group(Sum()) is given >= 1 item '
    '(what Group-mode aggregation returns for no item at all is not part of the statement)',
    'cls=unreg: glom(x, [T]) on a value that cannot be iterated raises UnregisteredTarget (documented); the reference raises '
    'its own marker exception there and the check demands UnregisteredTarget and not FoldError from glom',
    'plainop: the op that was given is the op of the reduction: a named plain operator (operator.add, or_, mul, ...) never '
    'writes into its left operand, so an init that returns the same prepared object on every call is legitimate, stays as it '
    'was, and the result is that object only where functools.reduce returns it (no element folded); in-place operators are '
    'generated only with an init that makes a new start value per call.  Group(Fold(T, init, op)) is given >= 1 item.',
]


class CountingInit(object):
    def __init__(self, base):
        self.base = base
        self.calls = 0

    def __call__(self):
        self.calls += 1
        return self.base()

    def __repr__(self):
        return '<counting %s>' % self.base.__name__


class RecOp(object):
    def __init__(self):
        self.calls = []

    def __call__(self, acc, v):
        self.calls.append(repr(v))
        return acc + v

    def __repr__(self):
        return '<recop>'


class Vec(object):
    """element class with the common "make sum() work" idiom: 0 + v is v itself, and an in-place +="""
    def __init__(self, *xs):
        self.xs = list(xs)

    def _zero(self):
        return not any(self.xs)

    def __add__(self, other):
        if not isinstance(other, Vec):
            return NotImplemented
        return type(self)(*[a + b for a, b in zip(self.xs, other.xs)])

    def __radd__(self, other):
        if not isinstance(other, Vec) and other == 0:
            return self
        return NotImplemented

    def __iadd__(self, other):
        if not isinstance(other, Vec):
            return NotImplemented
        self.xs[:] = [a + b for a, b in zip(self.xs, other.xs)]
        return self

    def __eq__(self, other):
        return type(other) is type(self) and self.xs == other.xs

    def __ne__(self, other):
        return not self == other

    __hash__ = None

    def __repr__(self):
        return '%s%r' % (type(self).__name__, tuple(self.xs))


class VecR(Vec):
    """as Vec, += rebinds the component list instead of filling it"""
    def __iadd__(self, other):
        if not isinstance(other, Vec):
            return NotImplemented
        self.xs = [a + b for a, b in zip(self.xs, other.xs)]
        return self


class VecA(Vec):
    """__add__ returns an operand where the other one is the zero vector"""
    def __add__(self, other):
        if not isinstance(other, Vec):
            return NotImplemented
        if other._zero():
            return self
        if self._zero():
            return other
        return Vec.__add__(self, other)


class VecI(VecA):
    """additionally += hands back an operand in the same cases as + does"""
    def __iadd__(self, other):
        if not isinstance(other, Vec):
            return NotImplemented
        if other._zero():
            return self
        if self._zero():
            return other
        return Vec.__iadd__(self, other)


VECS = {'radd0': Vec, 'radd0-rebind': VecR, 'add-operand': VecA, 'iadd-operand': VecI}


class RefUnregistered(Exception):
    """reference model: this value cannot be iterated (glom's word for it is UnregisteredTarget)"""


def ref_listed(x):
    """glom(x, [T]) for the plain values generated here"""
    if isinstance(x, (list, tuple)):
        return list(x)
    raise RefUnregistered(x)


def add_listed(acc, v):
    """an op that applies a spec to the element: the element must be iterable"""
    return acc + glom.glom(v, [T])


def ref_add_listed(acc, v):
    return acc + ref_listed(v)


INITS = {'int': int, 'float': float, 'list': list, 'tuple': tuple, 'str': str, 'dict': dict,
         'odict': collections.OrderedDict, 'fset': frozenset}
def last_odd(acc, v):
    """an op that legitimately returns None for some steps (None is a value like any other for reduce)"""
    return v if isinstance(v, int) and v % 2 else None


OPS = {'iadd': operator.iadd, 'add': operator.add, 'mul': operator.mul, 'union': frozenset.union, 'lastodd': last_odd}


def make_init(name):
    if name.startswith('count-'):
        return CountingInit(INITS[name[6:]])
    return INITS[name]


def make_op(name, ref=False):
    if name == 'rec':
        return RecOp()
    if name == 'addlisted':
        return ref_add_listed if ref else add_listed
    return OPS[name]


def gen_elems(draw, etype, n):
    if etype == 'int':
        return [['i', draw(st.integers(-5, 9))] for _ in range(n)]
    if etype == 'float':
        return [['f', draw(st.sampled_from([0.5, 1.5, -2.0, 4.0, 0.25]))] for _ in range(n)]
    if etype == 'str':
        return [['s', draw(st.sampled_from(['', 'a', 'bc', 'é']))] for _ in range(n)]
    if etype == 'list':
        return [['list', [['i', draw(st.integers(0, 5))] for _ in range(draw(st.integers(0, 3)))]] for _ in range(n)]
    if etype == 'tuple':
        return [['tuple', [['i', draw(st.integers(0, 5))] for _ in range(draw(st.integers(0, 3)))]] for _ in range(n)]
    if etype == 'dict':
        return [['dict', [[k, ['i', draw(st.integers(0, 9))]] for k in
                          draw(st.lists(st.sampled_from(['a', 'b', 'c']), max_size=3, unique=True))]] for _ in range(n)]
    if etype == 'strs':       # strings are iterables of their characters like any other element, mixed with lists of strings
        return [['s', draw(st.sampled_from(['', 'a', 'bc', 'def']))] if draw(st.integers(0, 2)) else
                ['list', [['s', draw(st.sampled_from(['x', 'yz']))] for _ in range(draw(st.integers(0, 2)))]] for _ in range(n)]
    if etype == 'nested':     # lists of lists of lists (for levels >= 2)
        def nest(d):
            if d == 0:
                return ['i', draw(st.integers(0, 9))]
            return ['list', [nest(d - 1) for _ in range(draw(st.integers(0, 2)))]]
        return [nest(3) for _ in range(n)]
    raise ValueError(etype)


COMPAT = {
    'int': (['int', 'float', 'count-int'], ['iadd', 'add', 'mul', 'rec', 'lastodd']),
    'float': (['float', 'int', 'count-float'], ['iadd', 'add', 'mul', 'rec']),
    'str': (['str'], ['iadd', 'add', 'rec']),
    'strs': (['list'], ['iadd']),
    'list': (['list', 'count-list'], ['iadd', 'add', 'rec']),
    'tuple': (['tuple'], ['iadd', 'add', 'rec']),
    'dict': (['dict', 'odict', 'count-dict'], ['update']),
    'nested': (['list', 'count-list'], ['iadd']),
}


VEC_KINDS = ['sum', 'fold', 'flatten', 'flatten_fn', 'group-sum']


def gen_vec(draw):
    """cls=vec: elements whose 0 + v is v, with an in-place +=, through every entry point that folds with the default op"""
    kind = draw(st.sampled_from(VEC_KINDS))
    variant = draw(st.sampled_from(sorted(VECS)))
    dim = draw(st.sampled_from([1, 2, 3]))
    n = draw(st.sampled_from([0, 1, 2, 2, 3, 3, 4, 5]))
    if kind == 'group-sum':
        n = max(n, 1)
    elems = []
    for _ in range(n):
        if draw(st.sampled_from([0, 0, 0, 1])):
            xs = [0] * dim                                  # zero vectors: v + 0 / 0 + v may be an operand
        else:
            xs = [draw(st.sampled_from(range(-3, 6))) for _ in range(dim)]
        elems.append(['vec', variant, xs])
    op = 'iadd'
    if kind == 'fold':
        op = draw(st.sampled_from(['iadd', 'iadd', 'iadd', 'add', 'rec']))
    subspec = draw(st.sampled_from([None, None, 'key', 'listspec']))
    if kind == 'group-sum' and subspec == 'listspec':
        subspec = None
    return {'cls': 'vec', 'kind': kind, 'etype': 'vec', 'elems': elems,
            'container': draw(st.sampled_from(['list', 'list', 'tuple', 'gen'])),
            'init': draw(st.sampled_from(['int', 'int', 'float', 'count-int'])), 'op': op, 'levels': 1,
            'subspec': subspec, 'stop_at': draw(st.sampled_from(range(7))), 'skip_at': draw(st.sampled_from(range(7))),
            'repeat': draw(st.sampled_from([2, 3])), 'same_data': draw(st.sampled_from([True, True, False])),
            'non_iterable': False}


NON_ITERABLE_ELEMS = [['i', 4], ['none'], ['f', 2.5], ['i', 0]]


def gen_unreg(draw):
    """cls=unreg: an element that cannot be iterated is met while an iterable target is being folded - by a lazy
    sub-spec (Iter([T])) or inside op; the eager spelling [[T]] and inputs without such an element are the controls"""
    mode = draw(st.sampled_from(['lazy-subspec', 'lazy-subspec', 'op', 'op', 'eager-subspec']))
    if mode == 'op':
        kind, op, subspec = 'fold', 'addlisted', draw(st.sampled_from([None, None, 'key']))
    else:
        kind, op = draw(st.sampled_from(['sum', 'fold', 'flatten', 'flatten_fn'])), 'iadd'
        subspec = 'iterlist' if mode == 'lazy-subspec' else 'eagerlist'
    n = draw(st.sampled_from([0, 1, 2, 2, 3, 4]))
    elems = [[draw(st.sampled_from(['list', 'list', 'tuple'])),
              [['i', draw(st.sampled_from(range(6)))] for _ in range(draw(st.sampled_from(range(4))))]] for _ in range(n)]
    bad_at = draw(st.sampled_from([None] + list(range(n + 1)) * 2))
    if bad_at is not None:
        elems.insert(bad_at, draw(st.sampled_from(NON_ITERABLE_ELEMS)))
    return {'cls': 'unreg', 'mode': mode, 'kind': kind, 'etype': 'listx', 'elems': elems, 'bad_at': bad_at,
            'container': draw(st.sampled_from(['list', 'list', 'tuple', 'gen'])),
            'init': draw(st.sampled_from(['list', 'list', 'count-list'])), 'op': op, 'levels': 1,
            'subspec': subspec, 'stop_at': 99, 'skip_at': 99, 'repeat': 2, 'non_iterable': False}


def gen(draw):
    cls = draw(st.sampled_from([None] * 10 + ['vec', 'vec', 'unreg', 'unreg']))
    if cls == 'vec':
        return gen_vec(draw)
    if cls == 'unreg':
        return gen_unreg(draw)
    kind = draw(st.sampled_from(['fold', 'fold', 'sum', 'flatten', 'flatten-lazy', 'merge', 'flatten_fn', 'merge_fn', 'fold-union']))
    if kind in ('merge', 'merge_fn'):
        etype = 'dict'
    elif kind in ('flatten', 'flatten-lazy'):
        etype = draw(st.sampled_from(['list', 'tuple', 'nested', 'list', 'strs']))
    elif kind == 'flatten_fn':
        etype = draw(st.sampled_from(['nested', 'nested', 'list']))
    elif kind == 'fold-union':
        etype = 'list'
    else:
        etype = draw(st.sampled_from(['int', 'float', 'str', 'list', 'tuple']))
    n = draw(st.integers(0, 4))
    inits, ops = COMPAT[etype]
    init = draw(st.sampled_from(inits))
    op = draw(st.sampled_from(ops))
    if draw(st.integers(0, 9)) == 0 and etype != 'dict':      # deliberately mismatched
        init = draw(st.sampled_from(['int', 'list', 'str', 'dict']))
    if kind == 'sum':
        op = 'iadd'
    if kind in ('flatten', 'flatten-lazy', 'flatten_fn'):
        op = 'iadd'
        if etype == 'tuple':
            init = draw(st.sampled_from(['list', 'tuple']))
    if kind == 'fold-union':
        init, op = 'fset', 'union'
    return {'kind': kind, 'etype': etype, 'elems': gen_elems(draw, etype, n),
            'container': draw(st.sampled_from(['list', 'list', 'tuple', 'gen', 'set' if etype in ('int', 'str') else 'list'])),
            'init': init, 'op': op, 'levels': draw(st.integers(0, 3)),
            'subspec': draw(st.sampled_from([None, None, 'key', 'listspec', 'listspec'])),
            'stop_at': draw(st.integers(0, 6)), 'skip_at': draw(st.integers(0, 6)),
            'repeat': draw(st.integers(2, 3)),
            'non_iterable': draw(st.sampled_from([True] + [False] * 14))}


def build_data(recipe):
    """returns (target, source list (for snapshots), elements)"""
    elems = [VECS[e[1]](*e[2]) if e[0] == 'vec' else tg.build(e).obj for e in recipe['elems']]
    src = list(elems)
    c = recipe['container']
    if c == 'list':
        data = src
    elif c == 'tuple':
        data = tuple(src)
    elif c == 'set':
        data = set(src)
    else:
        data = (x for x in src)
    return data, src


class ItemSpec(object):
    """item spec of a one-element list sub-spec: passes items through, SKIPs the skip_at-th and STOPs at the stop_at-th"""
    def __init__(self, stop_at, skip_at):
        self.stop_at, self.skip_at, self.n = stop_at, skip_at, -1

    def __call__(self, item):
        self.n += 1
        if self.n == self.stop_at:
            return glom.STOP
        if self.n == self.skip_at:
            return glom.SKIP
        return item

    def __repr__(self):
        return 'item(stop@%d, skip@%d)' % (self.stop_at, self.skip_at)


def list_subspec(recipe):
    return [ItemSpec(recipe.get('stop_at', 99), recipe.get('skip_at', 99))]


def apply_listspec(recipe, items):
    out = []
    for n, x in enumerate(items):
        if n == recipe.get('stop_at', 99):
            break
        if n == recipe.get('skip_at', 99):
            continue
        out.append(x)
    return out


def sub_spec(recipe):
    """the sub-spec of the recipe, None for T"""
    name = recipe['subspec']
    if name is None:
        return None
    if name == 'key':
        return T['k']
    if name == 'iterlist':
        return Iter([T])
    if name == 'eagerlist':
        return [[T]]
    return list_subspec(recipe)


def make_spec(recipe, init, op):
    kind = recipe['kind']
    sub = sub_spec(recipe)
    sub = T if sub is None else sub
    if kind == 'group-sum':
        return Group(Sum(init=init)) if sub is T else (sub, Group(Sum(init=init)))
    if kind in ('fold', 'fold-union'):
        return Fold(sub, init=init, op=op)
    if kind == 'sum':
        return Sum(sub, init=init)
    if kind == 'flatten':
        return Flatten(sub, init=init)
    if kind == 'flatten-lazy':
        return Flatten(sub, init='lazy')
    if kind == 'merge':
        return Merge(sub, init=init)
    return None


def reference(recipe, data, init, op):
    kind = recipe['kind']
    it = iter(data)
    if recipe['subspec'] == 'listspec':
        it = iter(apply_listspec(recipe, list(it)))       # iterate(glom(t, [item_spec])): SKIP omits, STOP truncates
    if recipe['subspec'] == 'eagerlist':
        it = iter([ref_listed(x) for x in it])            # glom(t, [[T]])
    if recipe['subspec'] == 'iterlist':
        it = (ref_listed(x) for x in it)                  # glom(t, Iter([T])): the same items, produced on demand
    if recipe['etype'] == 'vec' and op is operator.iadd:
        # "Sum equals sum", "no element of the input is ever mutated": the reduction builtins.sum performs; an in-place
        # operator is an optimisation for an accumulator the fold made itself, never a licence to write into an element
        op = operator.add
    if kind == 'group-sum':
        return functools.reduce(op, it, init())           # Group(Sum()): the sum of the items (>= 1 item)
    if kind in ('fold', 'fold-union', 'sum', 'flatten'):
        return functools.reduce(op, it, init())
    if kind == 'flatten-lazy':
        return list(itertools.chain.from_iterable(it))
    if kind in ('merge', 'merge_fn'):
        acc = init()
        for d in it:
            acc.update(d)
        return acc
    if kind == 'flatten_fn':
        levels = recipe['levels']
        if levels == 0:
            return list(it) if recipe['subspec'] == 'listspec' else data      # what the spec fetches, untouched
        cur = it
        for _ in range(levels - 1):
            cur = itertools.chain.from_iterable(cur)
        return functools.reduce(op if recipe['etype'] == 'vec' else operator.iadd, cur, init())
    raise ValueError(kind)


def mutable_ids(v, acc=None, depth=3):
    acc = set() if acc is None else acc
    if isinstance(v, (list, dict, set)):
        acc.add(id(v))
    if depth and isinstance(v, (list, tuple)):
        for x in v:
            mutable_ids(x, acc, depth - 1)
    return acc


def alias_index(v, elems):
    """index of the element that v is (identity), None if v is no element"""
    for i, x in enumerate(elems):
        if v is x:
            return i
    return None


def evaluate(recipe, spec, target, g_init, where):
    """one evaluation in the glom world: ('ok', value) | ('err', exception)"""
    kind = recipe['kind']
    try:
        if kind in ('flatten_fn', 'merge_fn'):
            kw = {'init': g_init}
            if kind == 'flatten_fn':
                kw['levels'] = recipe['levels']
            if recipe['subspec'] is not None:
                kw['spec'] = sub_spec(recipe)
            got = ('ok', (flatten if kind == 'flatten_fn' else merge)(target, **kw))
        else:
            got = ('ok', glom.glom(target, spec))
        if kind == 'flatten-lazy' and got[0] == 'ok':
            lazy_obj = got[1]
            if isinstance(lazy_obj, (list, tuple)):
                raise Mismatch('lazy-not-lazy', '%s: lazy Flatten returned a %s' % (where, type(lazy_obj).__name__))
            got = ('ok', list(lazy_obj))
    except Mismatch:
        raise
    except Exception as e:
        got = ('err', e)
    return got


def check(recipe, ctx):
    kind = recipe['kind']
    cls = recipe.get('cls')
    if cls == 'vec':
        # the hazard: init() + first element is that element, and the next step uses the default in-place op
        folded = apply_listspec(recipe, recipe['elems']) if recipe['subspec'] == 'listspec' else recipe['elems']
        hazard = recipe['op'] == 'iadd' and len(folded) >= 2
        ctx.label('cls-vec', 'vec-' + recipe['elems'][0][1] if recipe['elems'] else 'vec-empty', 'vec-entry-' + kind,
                  'vec-init-' + recipe['init'])
        if hazard:
            ctx.label('vec-inplace-hazard', 'vec-inplace-hazard-' + kind)
    if cls == 'unreg':
        ctx.label('cls-unreg', 'unreg-' + recipe['mode'] + ('-clean' if recipe['bad_at'] is None else '-bad'))
    ctx.label('kind-' + kind, 'etype-' + recipe['etype'], 'container-' + recipe['container'], 'subspec-%s' % recipe['subspec'])
    if recipe['non_iterable']:
        ctx.label('non-iterable-target')
        for bad in (5, None, 2.5, object()):
            init = make_init(recipe['init'] if recipe['init'] != 'update' else 'dict')
            try:
                spec = make_spec(recipe, init, make_op(recipe['op'] if recipe['op'] != 'update' else 'iadd'))
            except Exception:
                return
            target = {'k': bad} if recipe['subspec'] == 'key' else bad
            if recipe['subspec'] == 'listspec':
                return
            try:
                kw = {} if recipe['subspec'] != 'key' else {'spec': T['k']}
                if kind == 'flatten_fn':
                    r = flatten(target, levels=max(recipe['levels'], 1), **kw)
                elif kind == 'merge_fn':
                    r = merge(target, **kw)
                else:
                    r = glom.glom(target, spec)
                # (also for the lazy spelling the refusal comes from the glom() call itself, not from the first next()
                # on an object handed back as if everything were fine)
            except FoldError:
                continue
            except Exception as e:
                raise Mismatch('non-iterable-not-folderror', '%s on non-iterable %r raised %s: %r'
                               % (kind, bad, type(e).__name__, e))
            raise Mismatch('non-iterable-accepted', '%s on non-iterable %r returned %r' % (kind, bad, r))
        ctx.outcome('FoldError')
        return
    # one init/op object per world, re-used across the repeated evaluations
    opname = recipe['op']
    g_init = make_init(recipe['init'])
    g_op = make_op(opname) if opname != 'update' else None
    try:
        spec = make_spec(recipe, g_init, g_op)
    except Exception as e:
        # construction errors (e.g. Merge with an init that has no update) are legitimate rejections
        ctx.label('construction-rejected')
        return
    results = []
    nontriv = (len(recipe['elems']) >= 2 and recipe['etype'] in ('list', 'tuple', 'dict', 'nested', 'vec', 'listx')) or \
        (kind == 'flatten_fn' and recipe['levels'] >= 2) or recipe['init'].startswith('count-')
    ctx.nontrivial(nontriv)
    for rep in range(recipe['repeat']):
        # reference world
        r_init = make_init(recipe['init'])
        r_op = make_op(opname, ref=True) if opname != 'update' else None
        rdata, rsrc = build_data(recipe)
        try:
            exp = ('ok', reference(recipe, rdata, r_init, r_op))
        except Exception as e:
            exp = ('err', e)
        # glom world
        if recipe['subspec'] == 'listspec' and spec is not None:
            spec = make_spec(recipe, g_init, g_op)       # the item spec counts items: a fresh one per evaluation
        data, src = build_data(recipe)
        snap = tg.snapshot(src)
        target = {'k': data} if recipe['subspec'] == 'key' else data
        calls_before = g_init.calls if isinstance(g_init, CountingInit) else None
        where = '%s spec=%r elems=%r container=%s evaluation #%d' % (kind, spec, src, recipe['container'], rep + 1)
        got = evaluate(recipe, spec, target, g_init, where)
        ctx.label('exp-' + exp[0])
        if exp[0] == 'err':
            if got[0] != 'err':
                raise Mismatch('missing-error', '%s: the reduction raises %r, glom returned %r' % (where, exp[1], got[1]))
            if isinstance(exp[1], RefUnregistered) and not isinstance(got[1], UnregisteredTarget):
                # the plain reduction fails because an ELEMENT cannot be iterated (by the sub-spec / by op): that is
                # glom's UnregisteredTarget for that element, whether the sub-spec is spelled eagerly or lazily
                raise Mismatch('unregistered-relabelled', '%s: iterating the element %r fails (UnregisteredTarget), glom raised %s: %r'
                               % (where, exp[1].args[0], type(got[1]).__name__, got[1]))
            if isinstance(got[1], FoldError):
                # "a non-iterable target raises FoldError": this target is iterable
                raise Mismatch('folderror-for-iterable-target', '%s: the reduction raises %r, glom raised FoldError: %r'
                               % (where, exp[1], got[1]))
            if not isinstance(got[1], type(exp[1])) and not isinstance(got[1], GlomError):
                raise Mismatch('wrong-error-class', '%s: expected %r, got %r' % (where, exp[1], got[1]))
            return
        if got[0] == 'err':
            raise Mismatch('spurious-error', '%s: expected %r, glom raised %s: %r'
                           % (where, exp[1], type(got[1]).__name__, got[1]))
        e, g = exp[1], got[1]
        if kind == 'flatten_fn' and recipe['levels'] == 0:
            # zero levels of flattening: the fetched value itself (glom(target, spec)), untouched
            if g is not data and recipe['subspec'] != 'listspec':
                raise Mismatch('levels-0', '%s: levels=0 must return the value the spec fetches (here the object %r itself), got %r'
                               % (where, data, g))
            if recipe['subspec'] == 'listspec' and (type(e) is not type(g) or e != g):
                raise Mismatch('levels-0', '%s: levels=0 must return what the spec fetches: expected %r, got %r' % (where, e, g))
        else:
            if type(e) is not type(g) or e != g or (isinstance(e, dict) and list(e.items()) != list(g.items())):
                raise Mismatch('wrong-value', '%s: expected %r (%s), got %r (%s)'
                               % (where, e, type(e).__name__, g, type(g).__name__))
        # inputs untouched
        d = tg.snapshot_diff(snap, tg.snapshot(src))
        if d:
            raise Mismatch('input-mutated', '%s: %s' % (where, d))
        # init() called afresh exactly once per evaluation
        if calls_before is not None and kind != 'flatten-lazy':
            expected_calls = 1 if not (kind == 'flatten_fn' and recipe['levels'] == 0) else 0
            if kind == 'merge_fn':
                expected_calls = 2      # merge() builds a Merge spec per call, whose constructor probes init() once
            if g_init.calls - calls_before != expected_calls:
                raise Mismatch('init-calls', '%s: init() called %d times in this evaluation'
                               % (where, g_init.calls - calls_before))
        # recording op saw the elements in order
        if isinstance(g_op, RecOp) and kind == 'fold' and recipe['subspec'] != 'listspec':
            if g_op.calls[-len(src):] != [repr(x) for x in (list(data) if recipe['container'] == 'set' else src)] and src:
                if recipe['container'] != 'set':
                    raise Mismatch('op-order', '%s: op saw %r' % (where, g_op.calls[-len(src):]))
        if cls == 'vec':
            # the result is an input element only where the plain reduction returns its own corresponding element
            # (sum([v]) is v); otherwise it shares no state with the input or with an earlier result.  (A new object
            # where sum() hands back an element is fine: an in-place step on an accumulator the fold made itself.)
            ai, ag = alias_index(e, rsrc), alias_index(g, src)
            if ag is not None and ag != ai:
                raise Mismatch('result-aliases-input', '%s: the result is input element %r, the plain reduction returns %s'
                               % (where, ag, 'a new object' if ai is None else 'its element %d' % ai))
            if ag is None and isinstance(g, Vec):
                if any(g.xs is x.xs for x in src) or any(isinstance(p, Vec) and p.xs is g.xs for p in results):
                    raise Mismatch('results-share-state', '%s: the result shares its component list' % where)
            if recipe.get('same_data') and recipe['container'] != 'gen':
                # the same spec object on the same (untouched) input once more: equal and independent
                spec2 = make_spec(recipe, g_init, g_op) if recipe['subspec'] == 'listspec' else spec
                got2 = evaluate(recipe, spec2, target, g_init, where)
                if got2[0] == 'err':
                    raise Mismatch('spurious-error', '%s: second evaluation on the same input raised %r' % (where, got2[1]))
                g2 = got2[1]
                if type(g2) is not type(e) or g2 != e:
                    raise Mismatch('evaluations-differ', '%s: second evaluation on the same input returned %r, the first %r'
                                   % (where, g2, g))
                d = tg.snapshot_diff(snap, tg.snapshot(src))
                if d:
                    raise Mismatch('input-mutated', '%s (second evaluation on the same input): %s' % (where, d))
                ag2 = alias_index(g2, src)
                if ag2 is not None and ag2 != ai:
                    raise Mismatch('result-aliases-input', '%s: the second result is input element %r' % (where, ag2))
                if ag is None and isinstance(g2, Vec) and (g2 is g or g2.xs is g.xs):
                    raise Mismatch('results-share-state', '%s: two evaluations on the same input share state' % where)
        # the accumulator is a fresh object: not an input, not a previous result
        if isinstance(g, (list, dict, set)) and not (kind == 'flatten_fn' and recipe['levels'] == 0):
            if id(g) in set(map(id, src)) or g is src or g is data:
                raise Mismatch('result-aliases-input', '%s: the result object is one of the inputs' % where)
            for prev in results:
                if prev is g:
                    raise Mismatch('results-share-state', '%s: two evaluations returned the same object' % where)
        results.append(g)
    if len(results) >= 2 and not (kind == 'flatten_fn' and recipe['levels'] == 0):
        for r in results[1:]:
            if r != results[0]:
                raise Mismatch('evaluations-differ', '%s %r: evaluations returned %r then %r' % (kind, spec, results[0], r))
    ctx.outcome([kind, repr(spec)[:80], repr(results[0])[:80] if results else None])


# ---------------------------------------------------------------------------
# sub-check plainop: Fold with op given as a NAMED operator function
#
# "Fold(subspec, init, op) equals functools.reduce(op, iterate(glom(t, subspec)), init())" - for the op that was given.
# Python's operator module has every binary operator twice: a + b (operator.add: a new object, the operands untouched)
# and a += b (operator.iadd: may write into a, and for the built-in containers accepts more right operands than + does).
# The two are different functions, and which one the caller named decides
#   * whether a start value that outlives the evaluation (init=lambda: PREPARED) is written into,
#   * whether two evaluations can return one object,
#   * whether list + tuple / deque + list / dict | [(k, v)] is a TypeError,
#   * which method of a class that gives + and += different meanings runs.
# Constructed classes: (shared) init hands out one prepared mutable object on every call and op is a plain operator;
# (wider) an element of a type the in-place sibling of op would accept and op itself refuses; (distinct) an accumulator
# class whose every operator pair (+ / +=, * / *=, | / |=, & / &=, - / -=, ^ / ^=) leaves different marks; controls:
# the in-place operators (fresh start values only), immutable accumulators, elements both forms refuse.
# Oracle: functools.reduce(op, elements, init()) in an independently built reference world (own start object, own
# elements), compared by value, by exception class, by the state of the start object afterwards, by the number of init()
# calls and by the identity pattern (the result is the start object / an element / an earlier result exactly where the
# reference reduction's is).

PLAIN_OPS = {'add': operator.add, 'concat': operator.concat, 'mul': operator.mul, 'or_': operator.or_,
             'and_': operator.and_, 'sub': operator.sub, 'xor': operator.xor}
INPLACE_OPS = {'iadd': operator.iadd, 'iconcat': operator.iconcat, 'imul': operator.imul, 'ior': operator.ior,
               'iand': operator.iand, 'isub': operator.isub, 'ixor': operator.ixor}
INPLACE_OF = {'add': 'iadd', 'concat': 'iconcat', 'mul': 'imul', 'or_': 'ior', 'and_': 'iand', 'sub': 'isub', 'xor': 'ixor'}
NAMED_OPS = dict(PLAIN_OPS, **INPLACE_OPS)


class Dist(object):
    """accumulator class for which every operator and its in-place sibling mean different things: a <op> v is a NEW
    object with (op, v) appended to the log, a <op>= v writes (op=, v) into a itself"""
    def __init__(self, log=()):
        self.log = tuple(log)

    def __eq__(self, other):
        return type(other) is type(self) and self.log == other.log

    def __ne__(self, other):
        return not self == other

    __hash__ = None

    def __repr__(self):
        return 'Dist(%r)' % (self.log,)


def _dist_methods():
    def plain(sym):
        def method(self, v):
            return Dist(self.log + ((sym, v),))
        return method

    def inplace(sym):
        def method(self, v):
            self.log = self.log + ((sym + '=', v),)
            return self
        return method
    for name, sym in (('add', '+'), ('mul', '*'), ('or', '|'), ('and', '&'), ('sub', '-'), ('xor', '^')):
        setattr(Dist, '__%s__' % name, plain(sym))
        setattr(Dist, '__i%s__' % name, inplace(sym))


_dist_methods()

# accumulator type -> (plain operators it supports, element tags both + and += take, element tags that only the
# in-place sibling takes ("wider"), element tags both refuse)
PO_ACCS = {
    'list': (['add', 'add', 'concat', 'mul'], {'add': ['list'], 'concat': ['list'], 'mul': ['n']},
             {'add': ['tuple', 's', 'dict', 'set', 'fset', 'deque'], 'concat': ['tuple', 's', 'dict', 'deque']}, ['i']),
    'deque': (['add', 'add', 'mul'], {'add': ['deque'], 'mul': ['n']}, {'add': ['list', 'tuple', 's', 'set']}, ['i']),
    'dict': (['or_'], {'or_': ['dict']}, {'or_': ['pairs']}, ['list', 'i']),
    'odict': (['or_'], {'or_': ['dict', 'odict']}, {'or_': ['pairs']}, ['list', 'i']),
    'set': (['or_', 'and_', 'sub', 'xor'], dict.fromkeys(['or_', 'and_', 'sub', 'xor'], ['set', 'fset']), {}, ['list', 'tuple']),
    'dist': (['add', 'add', 'mul', 'or_', 'and_', 'sub', 'xor'],
             dict.fromkeys(['add', 'mul', 'or_', 'and_', 'sub', 'xor'], ['i', 's']), {}, []),
    # immutable accumulators: + and += are the same operation (controls)
    'tuple': (['add', 'concat', 'mul'], {'add': ['tuple'], 'concat': ['tuple'], 'mul': ['n']}, {}, ['list', 'i']),
    'int': (['add', 'mul', 'sub'], dict.fromkeys(['add', 'mul', 'sub'], ['i']), {}, ['s', 'list']),
    'str': (['add', 'concat'], {'add': ['s'], 'concat': ['s']}, {}, ['i', 'list']),
    'fset': (['or_', 'and_'], {'or_': ['fset', 'set'], 'and_': ['fset', 'set']}, {}, ['list']),
}
PO_MUTABLE = ('list', 'deque', 'dict', 'odict', 'set', 'dist')
PO_TYPES = {'list': list, 'deque': collections.deque, 'dict': dict, 'odict': collections.OrderedDict, 'set': set,
            'tuple': tuple, 'int': int, 'str': str, 'fset': frozenset}


def po_atom(draw):
    return draw(st.sampled_from([['i', 0], ['i', 1], ['i', 2], ['i', 7], ['s', 'a'], ['s', 'b'], ['s', 'xy']]))


def po_value(draw, tag):
    """recipe of one value of the given tag; the members are atoms"""
    if tag == 'n':
        return ['i', draw(st.sampled_from([0, 1, 1, 2, 2, 3]))]
    if tag == 'i':
        return ['i', draw(st.sampled_from([0, 1, 2, 5, -3]))]
    if tag == 's':
        return ['s', draw(st.sampled_from(['', 'a', 'bc', 'k']))]
    k = draw(st.sampled_from([0, 1, 1, 2, 2, 3]))
    if tag in ('dict', 'odict', 'pairs'):
        keys = draw(st.lists(st.sampled_from(['a', 'b', 'c', 'k']), min_size=min(k, 3), max_size=min(k, 3), unique=True))
        return [tag, [[key, po_atom(draw)] for key in keys]]
    return [tag, [po_atom(draw) for _ in range(k)]]


def po_build(r):
    tag = r[0]
    if tag in ('i', 's'):
        return r[1]
    if tag in ('dict', 'odict'):
        d = PO_TYPES[tag]()
        for k, v in r[1]:
            d[k] = po_build(v)
        return d
    if tag == 'pairs':
        return [(k, po_build(v)) for k, v in r[1]]
    if tag == 'dist':
        return Dist([(sym, po_build(v)) for sym, v in r[1]])
    return PO_TYPES[tag](po_build(v) for v in r[1])


def po_state(v):
    """identity-free canonical state (types and contents) of the values of this sub-check"""
    if isinstance(v, Dist):
        return ('Dist', [(sym, po_state(x)) for sym, x in v.log])
    if isinstance(v, dict):
        return (type(v).__name__, [(k, po_state(x)) for k, x in v.items()])
    if isinstance(v, (set, frozenset)):
        return (type(v).__name__, sorted(repr(po_state(x)) for x in v))
    if isinstance(v, (list, tuple, collections.deque)):
        return (type(v).__name__, [po_state(x) for x in v])
    return (type(v).__name__, repr(v))


class StartFactory(object):
    """init: hands out the prepared start value - a new equal object per call, or (shared) one object every time, which
    is legitimate with an operator that does not write into its left operand"""
    def __init__(self, recipe):
        self.recipe = recipe
        self.shared = recipe['initstyle'] == 'shared'
        self.obj = po_build(recipe['start']) if self.shared else None
        self.calls = 0

    def __call__(self):
        self.calls += 1
        return self.obj if self.shared else po_build(self.recipe['start'])

    def __repr__(self):
        return '<%s start %r>' % ('the one' if self.shared else 'a new', po_build(self.recipe['start']))


def gen_plainop(draw):
    acc = draw(st.sampled_from(['list'] * 5 + ['deque'] * 3 + ['dict'] * 2 + ['odict'] * 2 + ['set'] * 4 + ['dist'] * 4 +
                               ['tuple', 'int', 'str', 'fset']))
    ops, compat, wider, refused = PO_ACCS[acc]
    plain = op = draw(st.sampled_from(ops))
    initstyle = draw(st.sampled_from(['shared', 'shared', 'fresh', 'fresh', 'type']))
    if acc == 'dist' and initstyle == 'type':
        initstyle = 'fresh'
    if initstyle != 'shared' and draw(st.sampled_from([0, 0, 0, 1])):
        op = INPLACE_OF[op]           # the operator that does write into its left operand: only into a start value made for it
    if acc == 'dist':
        start = ['dist', [[s, po_atom(draw)] for s in draw(st.sampled_from([[], [], ['+'], ['|', '*=']]))]]
    elif acc == 'int':
        start = ['i', draw(st.sampled_from([0, 1, 2]))]
    elif acc == 'str':
        start = ['s', draw(st.sampled_from(['', 'h']))]
    else:
        start = po_value(draw, acc)
    if initstyle == 'type':
        start = {'int': ['i', 0], 'str': ['s', '']}.get(acc, [acc, []])
    n = draw(st.sampled_from([0, 1, 2, 2, 3, 3, 4]))
    shape = draw(st.sampled_from(['compat', 'compat', 'wider', 'wider', 'refused']))
    odd = wider.get(plain, []) if shape == 'wider' else (refused if shape == 'refused' else [])
    elems = []
    for _ in range(n):
        elems.append(po_value(draw, draw(st.sampled_from(compat[plain]))))
    if odd:
        n_odd = draw(st.sampled_from([1, 1, 2]))
        for _ in range(n_odd):
            elems.insert(draw(st.sampled_from(range(len(elems) + 1))), po_value(draw, draw(st.sampled_from(odd))))
    kind = draw(st.sampled_from(['fold', 'fold', 'fold', 'group-fold']))
    if kind == 'group-fold' and not elems:
        kind = 'fold'
    return {'cls': 'plainop', 'kind': kind, 'acc': acc, 'op': op, 'initstyle': initstyle, 'start': start, 'elems': elems,
            'container': draw(st.sampled_from(['list', 'list', 'tuple', 'gen'])),
            'subspec': None if kind == 'group-fold' else draw(st.sampled_from([None, None, 'key', 'listspec'])),
            'stop_at': draw(st.sampled_from(range(7))), 'skip_at': draw(st.sampled_from(range(7))),
            'repeat': draw(st.sampled_from([2, 2, 3])), 'same_data': draw(st.sampled_from([True, False]))}


def po_known_index(v, start, elems, results):
    """which object of its world a result is: ('start',) / ('elem', i) / ('result', j) / None for a new object.
    Immutable values carry no identity worth comparing (Python may or may not share them)."""
    if isinstance(v, (int, float, str, tuple, frozenset, type(None))):
        return None
    if start is not None and v is start:
        return ('start',)
    for i, x in enumerate(elems):
        if v is x:
            return ('elem', i)
    for j, x in enumerate(results):
        if x[0] == 'ok' and v is x[1]:
            return ('result', j)
    return None


def check_plainop(recipe, ctx):
    kind, acc, opname = recipe['kind'], recipe['acc'], recipe['op']
    ops, compat, wider, refused = PO_ACCS[acc]
    inplace = opname in INPLACE_OPS
    plain = [k for k, v in INPLACE_OF.items() if v == opname][0] if inplace else opname
    folded = apply_listspec(recipe, recipe['elems']) if recipe['subspec'] == 'listspec' else recipe['elems']
    # hazards, decided from the recipe alone
    shared = (not inplace and acc in PO_MUTABLE and recipe['initstyle'] == 'shared' and len(folded) >= 1)
    wide = (not inplace and any(e[0] in wider.get(plain, []) for e in folded))
    distinct = acc == 'dist' and len(folded) >= 1
    ctx.label('kind-' + kind, 'po-acc-' + acc, 'po-op-' + opname, 'po-init-' + recipe['initstyle'],
              'container-' + recipe['container'], 'subspec-%s' % recipe['subspec'])
    if shared:
        ctx.label('po-shared-start', 'po-shared-start-' + opname, 'po-shared-start-' + acc)
    if wide:
        ctx.label('po-wider-elem', 'po-wider-elem-' + opname, 'po-wider-elem-' + acc)
    if distinct:
        ctx.label('po-distinct', 'po-distinct-' + opname, 'po-distinct-given-' + ('inplace' if inplace else 'plain'))
    if (shared or wide or distinct) and kind == 'group-fold':
        ctx.label('po-hazard-group-fold')
    if inplace:
        ctx.label('po-inplace-control')
    if not (shared or wide or distinct or inplace):
        ctx.label('po-control')
    ctx.nontrivial(shared or wide or distinct or len(folded) >= 2)

    op = NAMED_OPS[opname]

    def world():
        init = PO_TYPES[acc] if recipe['initstyle'] == 'type' else StartFactory(recipe)
        return {'init': init, 'start': getattr(init, 'obj', None), 'results': [], 'elems': None}

    def elements(w):
        if w['elems'] is None or not recipe['same_data'] or recipe['container'] == 'gen':
            w['elems'] = [po_build(e) for e in recipe['elems']]
        src = w['elems']
        c = recipe['container']
        return (src if c == 'list' else tuple(src) if c == 'tuple' else (x for x in src)), src

    ref, glm = world(), world()
    item_spec = None
    for rep in range(recipe['repeat']):
        # reference world: functools.reduce(op, iterate(glom(t, subspec)), init())
        rdata, rsrc = elements(ref)
        rcalls = getattr(ref['init'], 'calls', None)
        try:
            items = list(rdata)
            if recipe['subspec'] == 'listspec':
                items = apply_listspec(recipe, items)
            exp = ('ok', functools.reduce(op, items, ref['init']()))
        except Exception as e:
            exp = ('err', e)
        rcalls = None if rcalls is None else ref['init'].calls - rcalls
        # glom world: one spec object for all evaluations (the item spec of a list sub-spec counts: a new one each time)
        data, src = elements(glm)
        before = po_state(src)
        sub = sub_spec(recipe)
        if rep == 0 or recipe['subspec'] == 'listspec':
            fold = Fold(T if sub is None else sub, init=glm['init'], op=op)
            spec = Group(fold) if kind == 'group-fold' else fold
        target = {'k': data} if recipe['subspec'] == 'key' else data
        gcalls = getattr(glm['init'], 'calls', None)
        where = '%s spec=%r elems=%r container=%s evaluation #%d' % (kind, spec, src, recipe['container'], rep + 1)
        try:
            got = ('ok', glom.glom(target, spec))
        except Exception as e:
            got = ('err', e)
        gcalls = None if gcalls is None else glm['init'].calls - gcalls
        ctx.label('exp-' + exp[0])
        if exp[0] == 'err':
            if got[0] != 'err':
                raise Mismatch('missing-error', '%s: the reduction raises %r, glom returned %r' % (where, exp[1], got[1]))
            if isinstance(got[1], FoldError):
                raise Mismatch('folderror-for-iterable-target', '%s: the reduction raises %r, glom raised FoldError: %r'
                               % (where, exp[1], got[1]))
            if not isinstance(got[1], type(exp[1])):
                raise Mismatch('wrong-error-class', '%s: expected %r, got %r' % (where, exp[1], got[1]))
        elif got[0] == 'err':
            raise Mismatch('spurious-error', '%s: expected %r, glom raised %s: %r'
                           % (where, exp[1], type(got[1]).__name__, got[1]))
        else:
            e, g = exp[1], got[1]
            if type(e) is not type(g) or po_state(e) != po_state(g):
                raise Mismatch('wrong-value', '%s: expected %r (%s), got %r (%s)'
                               % (where, e, type(e).__name__, g, type(g).__name__))
            # "results of separate evaluations share no state": the result is the start value / an element / an earlier
            # result exactly where the plain reduction's is (reduce over no element returns init() itself)
            ki, kg = (po_known_index(e, ref['start'], rsrc, ref['results']),
                      po_known_index(g, glm['start'], src, glm['results']))
            if ki != kg:
                def name(k):
                    if k is None:
                        return 'a new object'
                    if k[0] == 'start':
                        return 'the object init() returns every time'
                    return 'input element %d' % k[1] if k[0] == 'elem' else 'the result of evaluation #%d' % (k[1] + 1)
                raise Mismatch('result-aliases-input' if kg and kg[0] == 'elem' else 'results-share-state',
                               '%s: the result is %s; that of the plain reduction is %s' % (where, name(kg), name(ki)))
        # no element of the input is ever mutated
        if po_state(src) != before:
            raise Mismatch('input-mutated', '%s: elements afterwards %r' % (where, src))
        # the value init() hands out is written into exactly where the named operator does that
        if glm['start'] is not None and po_state(glm['start']) != po_state(ref['start']):
            raise Mismatch('init-value-mutated', '%s: the object returned by init() is now %r; after the plain reduction it is %r'
                           % (where, glm['start'], ref['start']))
        # init() called afresh, once per evaluation
        if gcalls is not None and gcalls != rcalls:
            raise Mismatch('init-calls', '%s: init() called %d times in this evaluation, by the plain reduction %d times'
                           % (where, gcalls, rcalls))
        ref['results'].append(exp)
        glm['results'].append(got)
        # an earlier result is not changed by a later evaluation
        for j, (re_, rg) in enumerate(zip(ref['results'], glm['results'])):
            if re_[0] == 'ok' and rg[0] == 'ok' and po_state(re_[1]) != po_state(rg[1]):
                raise Mismatch('earlier-result-changed', '%s: the result of evaluation #%d is now %r (plain reduction: %r)'
                               % (where, j + 1, rg[1], re_[1]))
    last = glm['results'][-1]
    ctx.outcome([kind, repr(spec)[:80], last[0], repr(last[1])[:80]])


SUBS = [
    Sub('reduce', check, gen=gen, quick=7000, thorough=20000,
        floors={'exp-ok': 0.5, 'kind-flatten_fn': 0.05, 'kind-merge': 0.04, 'non-iterable-target': 0.02,
                # constructed classes (shares of all cases)
                'cls-vec': 0.06, 'vec-inplace-hazard': 0.04,
                'vec-inplace-hazard-sum': 0.006, 'vec-inplace-hazard-fold': 0.006, 'vec-inplace-hazard-flatten': 0.006,
                'vec-inplace-hazard-flatten_fn': 0.006, 'vec-inplace-hazard-group-sum': 0.006, 'vec-init-float': 0.012,
                'vec-radd0': 0.012, 'vec-radd0-rebind': 0.012, 'vec-add-operand': 0.012, 'vec-iadd-operand': 0.012,
                'cls-unreg': 0.05, 'unreg-lazy-subspec-bad': 0.015, 'unreg-op-bad': 0.015, 'unreg-eager-subspec-bad': 0.006,
                'unreg-lazy-subspec-clean': 0.003, 'unreg-op-clean': 0.003}),
    Sub('plainop', check_plainop, gen=gen_plainop, quick=2000, thorough=8000,
        floors={'exp-ok': 0.8, 'exp-err': 0.25, 'po-control': 0.2, 'po-inplace-control': 0.07, 'kind-group-fold': 0.09,
                'po-hazard-group-fold': 0.045,
                # init hands out one prepared mutable object, op is a plain operator, >= 1 element is folded
                'po-shared-start': 0.13, 'po-shared-start-add': 0.03, 'po-shared-start-or_': 0.03, 'po-shared-start-mul': 0.01,
                'po-shared-start-concat': 0.01, 'po-shared-start-and_': 0.008, 'po-shared-start-sub': 0.008,
                'po-shared-start-xor': 0.006, 'po-shared-start-list': 0.034, 'po-shared-start-deque': 0.012,
                'po-shared-start-dict': 0.014, 'po-shared-start-odict': 0.01, 'po-shared-start-set': 0.02,
                'po-shared-start-dist': 0.02,
                # an element that only the in-place sibling of the plain operator accepts
                'po-wider-elem': 0.055, 'po-wider-elem-add': 0.023, 'po-wider-elem-concat': 0.006, 'po-wider-elem-or_': 0.02,
                'po-wider-elem-list': 0.025, 'po-wider-elem-deque': 0.006, 'po-wider-elem-dict': 0.012,
                'po-wider-elem-odict': 0.008,
                # accumulator class whose operator pairs mean different things
                'po-distinct': 0.045, 'po-distinct-given-plain': 0.035, 'po-distinct-given-inplace': 0.008,
                'po-distinct-add': 0.01, 'po-distinct-mul': 0.005, 'po-distinct-or_': 0.0045, 'po-distinct-and_': 0.003,
                'po-distinct-sub': 0.004, 'po-distinct-xor': 0.002}),
]
