"""C12 — delete removes exactly the addressed element, or nothing.

Generator: as C11 - tree-shaped targets with immutable and fault-injecting containers; paths by
walking the target (parent present/absent at every position, final element present/absent), every
admissible spelling (dotted string, Path with T chunks, pure T, S-rooted), ignore_missing in
{False, True}; delete() and Delete inside a tuple spec; plus Delete through 1-3 wildcards.
`computed`: the same paths with T[...] arguments that are computed over the target (T expression, Spec, Val, scope
variable) in the final and in middle positions.  `refuse`: a catalogue of present attributes whose deletion Python refuses
with AttributeError (frozen dataclass, property without deleter, namedtuple field, read-only builtin attribute, sealing
__delattr__) and absent attributes of the same objects, in T.attr, Path and string addressing; plus (F100) names that can
be read through the object and are no elements of it - a value / method of the class or of a base class only, an answer of a
__getattr__ fallback, an attribute an auto-creating __getattr__ would make when read, an unset slot: plain `del` raises
AttributeError as for any unknown name, so they are missing (PathDeleteError / ignored) and asking must not create them.
`refuseitem`: the same for
item parents - list / dict subclasses and Glommer-registered sequence- and mapping-likes whose __delitem__ refuses every
deletion or that of pinned elements with a non-LookupError, addressed by the text of the index, the index, T[...].

Oracle: Python's `del` on an independently built copy.
"""
import collections
import dataclasses

from hypothesis import strategies as st

import glom
from glom import Delete, GlomError, PathAccessError, PathDeleteError

from ..runner import Sub, Mismatch, HarnessBug
from .. import targets as tg
from .. import mutcommon as mc

PROPERTY = 'C12'
RULE = ('targets: tree-shaped recipes (depth <= 3) incl. immutable and fault-injecting containers; paths of 1-4 steps '
        'whose parent or final element is present or absent at every position, in every admissible spelling, with '
        'ignore_missing False/True. Non-trivial = path length >= 2, or a missing element, or a fault.')
ASSUMPTIONS = [
    'reference = Python del on an independently built copy of the same recipe',
    'deletion faults (immutable containers, raising __delitem__/__delattr__): some exception, class not constrained, target unchanged',
    'a present element (plain Python reads it) whose del raises is never reported as deleted or as missing: some exception '
    'also under ignore_missing=True, whatever class the refusal has (only LookupError from the deletion itself is unconstrained)',
    'a computed T[...] argument denotes the key it evaluates to over the target, in the final step as in any other',
    'an attribute is an element of an object iff the instance stores it (its __dict__) or a data descriptor of its class (property, '
    'slot, namedtuple field, C-level member) reads for it; a value or method only the class has, what __getattr__ would answer or '
    'create, and an unset slot are not: del raises AttributeError for them as for an unknown name = a missing final attribute',
]


class RefErr(Exception):
    def __init__(self, kind, k=None, exc=None):
        Exception.__init__(self, kind, k, exc)
        self.kind, self.k, self.exc = kind, k, exc


MISSING_FINAL = (KeyError, IndexError, AttributeError)


def do_delete(cur, op, seg):
    if op == 'P':
        if isinstance(cur, dict):
            del cur[seg]
        elif isinstance(cur, list):
            del cur[int(seg)]
        elif isinstance(cur, (tuple, str, bytes, frozenset, int, float, type(None), bool)):
            raise TypeError('immutable')
        else:
            delattr(cur, seg)
    elif op == '[':
        del cur[seg]
    else:
        delattr(cur, seg)


def ref_delete(target, steps):
    cur = target
    for k in range(len(steps) - 1):
        op, seg = steps[k]
        try:
            cur = mc.access(cur, op, seg)
        except mc.ACCESS_ERRORS as e:
            if (op == '[' and isinstance(e, ValueError)) or (op == '.' and not isinstance(e, AttributeError)):
                raise RefErr('other', k, e)
            raise RefErr('parent', k, e)
    op, seg = steps[-1]
    # classify "element is absent" without side effects
    try:
        mc.access(cur, op, seg)
        present = True
    except MISSING_FINAL:
        present = False
    except TypeError:
        # an attribute whose name is not a string cannot exist: absent, not a fault
        present = False if (mc.kind_of(cur) == 'attr' and not isinstance(seg, str) and op == 'P'
                            and not isinstance(cur, (tuple, str, bytes, frozenset, int, float, type(None), bool))) else None
    except Exception:
        present = None
    if isinstance(cur, (tuple, str, bytes, frozenset, int, float, type(None), bool)):
        err = RefErr('fault', len(steps) - 1, TypeError('immutable container'))
        err.present = present
        raise err
    try:
        do_delete(cur, op, seg)
    except Exception as e:
        if present is False and not isinstance(cur, (mc.FaultDict, mc.FaultObj)) and isinstance(e, MISSING_FINAL + (TypeError,)):
            raise RefErr('final', len(steps) - 1, e)
        err = RefErr('fault', len(steps) - 1, e)
        err.present = present
        raise err


def gen(draw):
    trec = mc.gen_target(draw)
    target = mc.build(trec).obj
    steps = mc.gen_steps(draw, target, final_present=draw(st.sampled_from([True, True, False, None])))
    return {'target': trec, 'steps': steps, 'ignore_missing': draw(st.booleans()),
            'api': draw(st.sampled_from(['func', 'spec']))}


def check(recipe, ctx):
    _check(recipe, ctx, [(op, seg) for op, seg in recipe['steps']], None)


def _check(recipe, ctx, steps, respell):
    """steps: the literal steps the reference deletes by; respell (computed-key cases): spelling -> (steps to build the
    glom path from, extra scope entries)"""
    ign = recipe['ignore_missing']
    rb = mc.build(recipe['target'])
    rpos_before = mc.positions(rb.obj)
    try:
        ref_delete(rb.obj, steps)
        exp = ('ok',)
    except RefErr as e:
        exp = ('err', e.kind, e.k, e.exc, getattr(e, 'present', None))
    ctx.label('exp-' + (exp[0] if exp[0] == 'ok' else 'err-' + exp[1]), 'len-%d' % len(steps),
              'ignore' if ign else 'strict')
    ctx.nontrivial(len(steps) >= 2 or exp[0] == 'err')
    for sp in mc.spellings(steps):
        if respell is not None and sp == 's-rooted':
            continue    # computed keys: the four addressing styles of the statement only
        gb = mc.build(recipe['target'])
        g = gb.obj
        psteps, extra = (steps, {}) if respell is None else respell(sp)
        path = mc.make_path(psteps, sp)
        before = tg.snapshot(g)
        pos_before = mc.positions(g)
        where = 'spelling=%s delete(%r, %r, ignore_missing=%r)' % (sp, g, path, ign)
        scope = {'tgt': g} if sp == 's-rooted' else {}
        if extra:
            scope.update(extra)
            where += ' scope=%r' % (extra,)
        ctx.label('spelling-' + sp)
        try:
            if sp == 's-rooted' or recipe['api'] == 'spec' or extra:
                res = glom.glom(g, (Delete(path, ignore_missing=ign),), scope=scope)
            else:
                res = glom.delete(g, path, ignore_missing=ign)
            err = None
        except Exception as e:
            err = e
        if exp[0] == 'ok':
            if err is not None:
                raise Mismatch('spurious-error', '%s: the element exists and del succeeds; glom raised %s: %r'
                               % (where, type(err).__name__, getattr(err, 'args', err)))
            if res is not g:
                raise Mismatch('wrong-return', '%s: must return the same object, got %r' % (where, res))
            if tg.structure(g) != tg.structure(rb.obj):
                raise Mismatch('wrong-effect', '%s: expected %r, got %r' % (where, rb.obj, g))
            pos_after = mc.positions(g)
            rpos_after = mc.positions(rb.obj)
            for pos, oid in rpos_before.items():
                if rpos_after.get(pos) == oid:
                    if pos_after.get(pos) != pos_before.get(pos):
                        raise Mismatch('frame', '%s: object at position %r was replaced or lost' % (where, pos))
            continue
        kind = exp[1]
        unchanged = tg.snapshot_diff(before, tg.snapshot(g))
        if kind in ('parent', 'final') and ign:
            if err is not None:
                raise Mismatch('ignore-missing-not-honoured', '%s: %s element is absent, ignore_missing=True, glom raised %s: %r'
                               % (where, kind, type(err).__name__, getattr(err, 'args', err)))
            if res is not g:
                raise Mismatch('wrong-return', '%s: must return the target' % where)
            if unchanged:
                raise Mismatch('not-atomic', '%s: nothing to delete but the target changed: %s' % (where, unchanged))
            continue
        if kind == 'fault' and ign:
            # the element is PRESENT and its deletion is refused: that is not a missing element.  "A successful delete
            # has exactly the effect of Python's del": returning normally with the element still there is no option,
            # in any addressing style, and whatever exception class the refusal is spelled with: a read-only property,
            # a frozen dataclass and a namedtuple field refuse with AttributeError, and the element is there (exp[4]:
            # plain Python reads it).  Only a LookupError raised by the container's own deletion for an element that
            # reads fine cannot be told from a concurrent absence and is not constrained (not generated).
            if unchanged:
                raise Mismatch('not-atomic', '%s: deletion refused but the target changed: %s' % (where, unchanged))
            if err is None and exp[4] is True and not isinstance(exp[3], LookupError):
                ctx.label('fault-under-ignore-missing')
                raise Mismatch('refused-delete-reported-as-success', '%s: the element is present and del raises %r; glom returned '
                               'normally and the element is still there' % (where, exp[3]))
            ctx.label('fault-under-ignore-missing')
            continue
        if err is None:
            raise Mismatch('missing-error', '%s: del fails (%s at step %s: %r); glom returned %r'
                           % (where, kind, exp[2], exp[3], res))
        if unchanged:
            raise Mismatch('not-atomic', '%s: failed (%s) but the target changed: %s' % (where, type(err).__name__, unchanged))
        if kind == 'parent':
            if not isinstance(err, PathAccessError):
                raise Mismatch('wrong-error-class', '%s: a parent is absent (step %d): expected PathAccessError, got %s: %r'
                               % (where, exp[2], type(err).__name__, getattr(err, 'args', err)))
        elif kind == 'final':
            if not isinstance(err, PathDeleteError):
                raise Mismatch('wrong-error-class', '%s: the final element is absent: expected PathDeleteError, got %s: %r'
                               % (where, type(err).__name__, getattr(err, 'args', err)))
    ctx.outcome([exp[0], exp[1] if exp[0] == 'err' else None, repr(recipe['steps'])])


# ---------------------------------------------------------------------------
# computed keys: a '[' step whose argument is a T expression / Spec / Val / scope variable addresses the key the
# argument evaluates to over the target ("T ... now all use glom.core.arg_val", CHANGELOG 23.1.0; reading the same
# expression shows which element is addressed), in the final position as in any other.
#
# The target is {'data': <tree>, 'keys': [k0, k1, ...]}; the reference resolves a computed argument with plain Python
# (root['keys'][j]) and deletes by the literal steps; glom gets the same steps with T['keys'][j], Spec('keys.j'),
# Spec(T['keys'][j]), Val(k) or S['kj'] (scope={'kj': k}) in place of the literal.

KEY_FORMS = ['t', 't', 'spec-str', 'spec-t', 'val', 'scope']


def _bracketize(target, steps):
    """re-spell 'P' steps as '[' steps where plain Python means the same by both (a mapping key; an integer index of a
    sequence, which 'P' passes through int()), so that the argument can be a computed one"""
    cur, out, alive = target, [], True
    for op, seg in steps:
        if alive and op == 'P':
            k = mc.kind_of(cur)
            if k == 'map':
                op = '['
            elif k == 'seq':
                try:
                    seg, op = int(seg), '['
                except (TypeError, ValueError):
                    pass
        out.append([op, seg])
        if alive:
            try:
                cur = mc.access(cur, op, seg)
            except Exception:
                alive = False
    return out


def gen_computed(draw):
    trec = mc.gen_target(draw)
    target = mc.build(trec).obj
    steps = mc.gen_steps(draw, target, max_len=3, final_present=draw(st.sampled_from([True, True, True, False, None])))
    steps = [[draw(st.sampled_from(['[', '[', 'P'])), 'data']] + _bracketize(target, steps)
    cand = [i for i, (op, _) in enumerate(steps) if op == '[']
    last = len(steps) - 1
    want = draw(st.sampled_from(['final', 'final', 'final', 'middle', 'both', 'all']))
    if want == 'all':
        chosen = cand
    else:
        chosen = []
        if want in ('final', 'both') and last in cand:
            chosen.append(last)
        mid = [i for i in cand if i != last]
        if mid and (want in ('middle', 'both') or not chosen):
            chosen.append(draw(st.sampled_from(mid)))
    keys, computed = [], []
    for i in sorted(chosen):
        computed.append([i, draw(st.sampled_from(KEY_FORMS)), len(keys)])
        keys.append(steps[i][1])
        steps[i][1] = None          # resolved through keys[j], by the reference and by glom
    return {'target': ['dict', [['data', trec], ['keys', ['list', [['s', k] if isinstance(k, str) else ['i', k] for k in keys]]]]],
            'steps': steps, 'computed': computed, 'ignore_missing': draw(st.booleans()),
            'api': draw(st.sampled_from(['func', 'spec']))}


def check_computed(recipe, ctx):
    from glom import S, Spec, T, Val
    ref_keys = mc.build(recipe['target']).obj['keys']
    steps = [[op, seg] for op, seg in recipe['steps']]
    last = len(steps) - 1
    for i, form, j in recipe['computed']:
        if steps[i][0] != '[' or steps[i][1] is not None:
            raise HarnessBug('computed key at a step that is no T[...] step: %r' % (recipe,))
        steps[i][1] = ref_keys[j]           # plain Python: the key the argument denotes
        ctx.label('computed-final' if i == last else 'computed-middle', 'keyform-' + form)
    steps = [(op, seg) for op, seg in steps]

    def respell(sp):
        psteps, extra = [list(x) for x in steps], {}
        for i, form, j in recipe['computed']:
            lit = ref_keys[j]
            if form == 't':
                arg = T['keys'][j]
            elif form == 'spec-str':
                arg = Spec('keys.%d' % j)
            elif form == 'spec-t':
                arg = Spec(T['keys'][j])
            elif form == 'val':
                arg = Val(lit)
            else:
                arg = S['k%d' % j]
                extra['k%d' % j] = lit
            psteps[i][1] = arg
        return psteps, extra
    n_before = ctx.labels.get('exp-ok', 0)
    _check(recipe, ctx, steps, respell)
    if any(i == last for i, _, _ in recipe['computed']):
        ctx.label('computed-final-ok' if ctx.labels.get('exp-ok', 0) > n_before else 'computed-final-err')


# ---------------------------------------------------------------------------
# refusals spelled as AttributeError: a PRESENT attribute whose deletion Python refuses (frozen dataclass, property
# without deleter, namedtuple field, read-only attribute of a builtin, __delattr__ that refuses everything) is not a
# missing element: ignore_missing=True has nothing to ignore, returning normally would report a deletion that did not
# happen.  An ABSENT attribute of the same objects is missing whatever the object's __delattr__ says about it.
# Reference: getattr / delattr on an independently built holder.

@dataclasses.dataclass(frozen=True)
class Frozen(object):
    x: int = 1
    y: int = 2


class ROProperty(object):
    """x: property without deleter; y: ordinary instance attribute"""
    def __init__(self):
        self.y = 2

    @property
    def x(self):
        return 1

    def __repr__(self):
        return 'ROProperty(%s)' % ', '.join(sorted(self.__dict__))


class SetterOnly(object):
    """x: property with a setter and no deleter"""
    def __init__(self):
        self._x = 1

    x = property(lambda self: self._x, lambda self, v: self.__dict__.__setitem__('_x', v))

    def __repr__(self):
        return 'SetterOnly(_x=%r)' % (self._x,)


class Sealed(object):
    """refuses every attribute deletion the way read-only objects do (AttributeError)"""
    def __init__(self):
        self.__dict__['x'] = 1
        self.__dict__['y'] = 2

    def __delattr__(self, name):
        raise AttributeError('sealed: cannot delete %r' % (name,))

    def __repr__(self):
        return 'Sealed(%s)' % ', '.join(sorted(self.__dict__))


class SlotsXY(object):
    """control: slots can be deleted (and an unset slot is absent)"""
    __slots__ = ('x', 'y')

    def __init__(self):
        self.x = 1

    def __repr__(self):
        return 'SlotsXY(%s)' % ', '.join(n for n in self.__slots__ if hasattr(self, n))


NTxy = collections.namedtuple('NTxy', 'x y')


# Attributes that can be READ through the object and are no elements OF the object (F100): a value or a method that only
# the class (or a base class) has, an unset __slots__ member, an answer that a __getattr__ fallback computes, an attribute
# that an auto-creating __getattr__ would make on the first read.  Plain Python: `del obj.name` raises AttributeError for
# each of them exactly as for a name nobody knows ("'Config' object has no attribute 'debug'") - there is nothing on the
# object to delete and nothing refuses: a missing final attribute (PathDeleteError; ignored under ignore_missing=True),
# and - frame condition - asking must not create it.

class AutoNode(object):
    """auto-vivifying attributes: reading a name that is not there CREATES it (tree builders, mock objects)"""
    def __init__(self, **kw):
        self.__dict__.update(kw)

    def __getattr__(self, name):
        if name.startswith('__'):
            raise AttributeError(name)
        v = self.__dict__[name] = AutoNode()
        return v

    def __repr__(self):
        return 'AutoNode(%s)' % ', '.join('%s=%r' % kv for kv in sorted(self.__dict__.items()))


class Config(object):
    """debug, limit: values of the CLASS (defaults); describe / make: methods; y: the instance's own attribute"""
    debug = False
    limit = 3

    def __init__(self):
        self.y = 2

    def describe(self):
        return 'config'

    @classmethod
    def make(cls):
        return cls()

    def __repr__(self):
        return '%s(%s)' % (type(self).__name__, ', '.join('%s=%r' % kv for kv in sorted(self.__dict__.items())))


class SubConfig(Config):
    """everything but y is inherited from the base class"""


class Shadowing(Config):
    """debug: an instance attribute in front of the class value (del removes it, the class value shows again);
    limit: only the class has it"""
    def __init__(self):
        Config.__init__(self)
        self.debug = True


class Fallback(object):
    """__getattr__ answers every public name with a computed value and stores nothing; y is an own attribute"""
    def __init__(self):
        self.y = 2

    def __getattr__(self, name):
        if name.startswith('_'):
            raise AttributeError(name)
        return 'default-' + name

    def __repr__(self):
        return 'Fallback(%s)' % ', '.join('%s=%r' % kv for kv in sorted(self.__dict__.items()))


class SlotsConst(object):
    """no instance __dict__: x a set slot, u an unset one, K a constant of the class"""
    __slots__ = ('x', 'u')
    K = 5

    def __init__(self):
        self.x = 1

    def __repr__(self):
        return 'SlotsConst(%s)' % ', '.join(n for n in self.__slots__ if hasattr(self, n))


# tag -> (constructor, attribute names to draw from)
HOLDERS = {
    'frozen': (Frozen, ['x', 'y', 'zz']),
    'roprop': (ROProperty, ['x', 'x', 'y', 'zz']),
    'setteronly': (SetterOnly, ['x', 'zz']),
    'sealed': (Sealed, ['x', 'y', 'zz']),
    'ntuple': (lambda: NTxy(1, 2), ['x', 'y', 'zz']),
    'float': (lambda: 2.5, ['real', 'imag', 'zz']),
    'complex': (lambda: complex(1, 2), ['real', 'imag', 'zz']),
    'range': (lambda: range(1, 5), ['start', 'stop', 'zz']),
    'slice': (lambda: slice(1, 2), ['start', 'stop', 'zz']),
    'slots': (SlotsXY, ['x', 'y', 'zz']),
    'plain': (lambda: tg.Obj(x=1, y=2), ['x', 'y', 'zz']),
    # readable and no element of the object (F100)
    'autoviv': (lambda: AutoNode(kept=1), ['x', 'x', 'zz', 'kept']),
    'classval': (Config, ['debug', 'debug', 'limit', 'describe', 'describe', 'make', 'y', 'zz']),
    'inherited': (SubConfig, ['debug', 'limit', 'describe', 'y']),
    'shadowing': (Shadowing, ['debug', 'limit', 'zz']),
    'fallback': (Fallback, ['x', 'x', 'zz', 'y']),
    'slotsconst': (SlotsConst, ['x', 'u', 'u', 'K', 'K', 'zz']),
}
# the classes of names that are no elements of the holder, as DECLARED (the check computes the answer with _own_attr and
# plain getattr / delattr and fails as a harness error where the two disagree); every other name is 'own' or 'absent'
NOT_OWN = {
    ('autoviv', 'x'): 'autoviv', ('autoviv', 'zz'): 'autoviv',
    ('classval', 'debug'): 'classvalue', ('classval', 'limit'): 'classvalue',
    ('classval', 'describe'): 'method', ('classval', 'make'): 'method',
    ('inherited', 'debug'): 'inherited', ('inherited', 'limit'): 'inherited', ('inherited', 'describe'): 'inherited',
    ('shadowing', 'limit'): 'classvalue',
    ('fallback', 'x'): 'fallback', ('fallback', 'zz'): 'fallback',
    ('slotsconst', 'u'): 'unsetslot', ('slotsconst', 'K'): 'classvalue', ('slots', 'y'): 'unsetslot',
}
READABLE_NOT_OWN = ('autoviv', 'classvalue', 'method', 'inherited', 'fallback')
OLD_HOLDERS = ['complex', 'float', 'frozen', 'ntuple', 'plain', 'range', 'roprop', 'sealed', 'setteronly', 'slice', 'slots']
NEW_HOLDERS = ['autoviv', 'autoviv', 'autoviv', 'classval', 'classval', 'classval', 'inherited', 'inherited', 'shadowing',
               'fallback', 'fallback', 'slotsconst']
OBSERVED = ['x', 'y', 'zz', '_x', 'real', 'imag', 'start', 'stop', 'kept', 'debug', 'limit', 'describe', 'make', 'u', 'K']
ADDRS = ['str', 'path', 't', 'path-t', 'mixed-t', 'mixed-p']


def _own_attr(obj, name):
    """Python's data model (object.__delattr__ / "Invoking descriptors"): what `del obj.name` can act on is a data
    descriptor of the class (a property, a slot, a namedtuple field, a C-level member: it answers for the instance, and
    the attribute is there iff it can be read) or, failing that, an entry of the instance's own __dict__.  Anything else
    the class has (plain values, functions, classmethods: no data descriptors) and whatever __getattr__ would answer is
    not the instance's.  Never runs __getattr__."""
    for klass in type(obj).__mro__:
        if name in vars(klass):
            v = vars(klass)[name]
            if hasattr(type(v), '__set__') or hasattr(type(v), '__delete__'):
                try:
                    v.__get__(obj, type(obj))
                    return True
                except AttributeError:
                    return False
            break
    try:
        return name in object.__getattribute__(obj, '__dict__')
    except AttributeError:
        return False


def gen_refuse(draw):
    # 3 of 5 cases from the catalogue of refusing holders, 2 of 5 from the holders with readable non-elements (F100)
    holder = draw(st.sampled_from(NEW_HOLDERS)) if draw(st.integers(0, 4)) >= 3 else draw(st.sampled_from(OLD_HOLDERS))
    addrs = ADDRS if holder != 'ntuple' else ['t', 'path-t', 'mixed-t']   # a tuple has no 'delete' handler (by design)
    return {'holder': holder, 'attr': draw(st.sampled_from(HOLDERS[holder][1])),
            'wrap': draw(st.sampled_from(['root', 'dict', 'list', 'obj'])),
            'addr': draw(st.sampled_from(addrs)), 'ignore_missing': draw(st.sampled_from([True, True, False])),
            'api': draw(st.sampled_from(['func', 'spec']))}


def _wrap(recipe):
    h = HOLDERS[recipe['holder']][0]()
    w = recipe['wrap']
    if w == 'root':
        return h, h, None
    if w == 'dict':
        return {'a': h, 'b': 1}, h, ('[', 'a')
    if w == 'list':
        return [0, h], h, ('[', 1)
    return tg.Obj(a=h, b=1), h, ('.', 'a')


def _observe(target, holder):
    """what the holder has, looked at without running a __getattr__ of the holder (object.__getattribute__ does not fall
    back to it): the instance's own __dict__ as it is, and what the observed names read as"""
    out = []
    try:
        out.append(('__dict__', sorted((k, repr(v)) for k, v in object.__getattribute__(holder, '__dict__').items())))
    except AttributeError:
        pass
    for n in OBSERVED:
        try:
            out.append((n, repr(object.__getattribute__(holder, n))))
        except AttributeError:
            pass
    return (tg.snapshot(target), out)


def check_refuse(recipe, ctx):
    from glom import Path, T
    name, ign, addr = recipe['attr'], recipe['ignore_missing'], recipe['addr']
    # reference: plain Python on an independently built holder
    rt, rh, _ = _wrap(recipe)
    present = _own_attr(rh, name)
    ref_before = _observe(rt, rh)[1]
    try:
        delattr(rh, name)
        refusal = None
    except Exception as e:
        refusal = e
    # the model's own consistency: the declared class of the name, what a plain read says (on a holder of its own: the
    # read may create the attribute), and what del says
    declared = NOT_OWN.get((recipe['holder'], name))
    try:
        getattr(_wrap(recipe)[1], name)
        readable = True
    except AttributeError:
        readable = False
    if (declared is not None and present) or (present and not readable) or \
            (readable and not present and declared not in READABLE_NOT_OWN) or \
            (not readable and declared in READABLE_NOT_OWN):
        raise HarnessBug('holder out of its own model (declared %r, own=%r, readable=%r): %r' % (declared, present, readable, recipe))
    if not present and (not isinstance(refusal, AttributeError) or _observe(rt, rh)[1] != ref_before):
        raise HarnessBug('del of a name that is no attribute of the object: expected AttributeError and no effect, got %r: %r'
                         % (refusal, recipe))
    if refusal is None and not present:
        raise HarnessBug('del of an absent attribute succeeded: %r' % (recipe,))
    exp = 'ok' if refusal is None else ('refused' if present else 'missing')
    target, h, up = _wrap(recipe)
    if up is None:
        path = {'str': name, 'path': Path(name), 't': getattr(T, name), 'path-t': Path(getattr(T, name)),
                'mixed-t': Path(getattr(T, name)), 'mixed-p': Path(name)}[addr]
    else:
        op, seg = up
        tup = T[seg] if op == '[' else getattr(T, seg)
        path = {'str': '%s.%s' % (seg, name), 'path': Path(seg, name), 't': getattr(tup, name),
                'path-t': Path(getattr(tup, name)), 'mixed-t': Path(seg, getattr(T, name)), 'mixed-p': Path(tup, name)}[addr]
    ctx.nontrivial(True)
    ctx.label('exp-' + exp, 'holder-' + recipe['holder'], 'addr-' + addr, 'ignore' if ign else 'strict',
              'final-attr' if addr in ('t', 'path-t', 'mixed-t') else 'final-P')
    if ign:
        ctx.label('ignore-' + exp)
    if declared is not None:
        ctx.label('notown-' + declared, ('ignore-notown-' if ign else 'strict-notown-') + declared)
        ctx.label('ignore-notown' if ign else 'strict-notown')
        what = {'autoviv': 'not there (its __getattr__ would create it on a read)', 'classvalue': 'a value of the class only',
                'method': 'a method of the class', 'inherited': 'inherited from a base class only',
                'fallback': 'an answer of the __getattr__ fallback only', 'unsetslot': 'an unset slot'}[declared]
    else:
        what = 'absent'
    where = 'delete(%r, %r, ignore_missing=%r)' % (target, path, ign)
    before = _observe(target, h)
    try:
        if recipe['api'] == 'spec':
            res = glom.glom(target, (Delete(path, ignore_missing=ign),))
        else:
            res = glom.delete(target, path, ignore_missing=ign)
        err = None
    except Exception as e:
        err = e
    after = _observe(target, h)
    if exp == 'ok':
        if err is not None:
            raise Mismatch('spurious-error', '%s: the attribute exists and del succeeds; glom raised %s: %r'
                           % (where, type(err).__name__, getattr(err, 'args', err)))
        if res is not target:
            raise Mismatch('wrong-return', '%s: must return the same object, got %r' % (where, res))
        if after[1] != _observe(rt, rh)[1] or tg.structure(target) != tg.structure(rt):
            raise Mismatch('wrong-effect', '%s: expected %r with attributes %r, got attributes %r'
                           % (where, rt, _observe(rt, rh)[1], after[1]))
        ctx.outcome([exp, recipe['holder'], name])
        return
    if before[1] != after[1] or tg.snapshot_diff(before[0], after[0]):
        raise Mismatch('not-atomic', '%s: nothing deleted (%s) but the target changed: %r -> %r' % (where, exp, before[1], after[1]))
    if exp == 'refused':
        # present and del raises: an error in every addressing style, with and without ignore_missing (class not constrained)
        if err is None:
            raise Mismatch('refused-delete-reported-as-success' if ign else 'missing-error',
                           '%s: the attribute is present (the object has it) and del raises %r; glom returned normally and '
                           'the attribute is still there' % (where, refusal))
    elif ign:
        if err is not None:
            raise Mismatch('ignore-missing-not-honoured', '%s: the attribute is %s: the object has nothing to delete (plain '
                           'del raises %r), ignore_missing=True, glom raised %s: %r'
                           % (where, what, refusal, type(err).__name__, getattr(err, 'args', err)))
        if res is not target:
            raise Mismatch('wrong-return', '%s: must return the target' % where)
    else:
        if not isinstance(err, PathDeleteError):
            raise Mismatch('wrong-error-class' if err is not None else 'missing-error',
                           '%s: the attribute is %s (plain del raises %r): expected PathDeleteError, got %r'
                           % (where, what, refusal, err))
    ctx.outcome([exp, recipe['holder'], name, type(err).__name__ if err is not None else None])


# ---------------------------------------------------------------------------
# refusals of ITEM deletions: a sequence or mapping parent whose __delitem__ refuses (every deletion: a frozen container;
# or the deletion of some pinned elements only) with an exception that is no LookupError.  The element is addressed in
# every style: the TEXT of an index ('a.1', Path('a', '1'), negative ones too), the index itself (Path('a', 1)), T[...];
# mapping keys that are texts of integers and the integers themselves.  A present element (plain Python reads it) whose
# deletion raises is neither deleted nor missing: some exception, with and without ignore_missing, target unchanged.
# An absent element of a container that looks at the index first (LookupError) is missing: PathDeleteError, or ignored.
# Reference: item read / del on an independently built holder; the text of an index denotes the index ("deleting ...
# indexes of sequences", Delete('dict.x.1') in the docstring).

class Refused(Exception):
    """a refusal class of the container's own"""


REFUSALS = {'TypeError': TypeError, 'RuntimeError': RuntimeError, 'ValueError': ValueError, 'AttributeError': AttributeError,
            'NotImplementedError': NotImplementedError, 'PermissionError': PermissionError, 'Refused': Refused}


class _Guard(object):
    """policy 'all': refuses every deletion without looking at the element (a frozen container); 'pinned': looks the
    element up first (LookupError when absent) and refuses the pinned ones; 'none': deletes like the plain container"""
    def _init_guard(self, policy, pinned, exc):
        d = self.__dict__
        d['_policy'], d['_pinned'], d['_exc'] = policy, list(pinned), exc

    def _refuse(self, what):
        raise self._exc('%s does not support deletion of %r' % (type(self).__name__, what))

    def _tail(self):
        if self._policy == 'none':
            return ''
        return ', refuses=%s:%s' % ('all' if self._policy == 'all' else self._pinned, self._exc.__name__)


class GuardedList(list, _Guard):
    def __init__(self, items, policy, pinned, exc):
        list.__init__(self, items)
        self._init_guard(policy, pinned, exc)

    def __delitem__(self, i):
        if self._policy == 'all':
            self._refuse(i)
        pos = range(len(self))[i]       # IndexError: no such element
        if pos in self._pinned:
            self._refuse(i)
        list.__delitem__(self, i)

    def __repr__(self):
        return 'GuardedList(%s%s)' % (list.__repr__(self), self._tail())


class GuardedDict(dict, _Guard):
    def __init__(self, pairs, policy, pinned, exc):
        dict.__init__(self, [(k, v) for k, v in pairs])
        self._init_guard(policy, pinned, exc)

    def __delitem__(self, k):
        if self._policy == 'all':
            self._refuse(k)
        if not dict.__contains__(self, k):
            raise KeyError(k)
        if any(type(p) is type(k) and p == k for p in self._pinned):
            self._refuse(k)
        dict.__delitem__(self, k)

    def __repr__(self):
        return 'GuardedDict(%s%s)' % (dict.__repr__(self), self._tail())


class GuardedSeq(_Guard):
    """sequence-like and no list: index read, index deletion, .index(); registered on a Glommer with get= only"""
    def __init__(self, items, policy, pinned, exc):
        self.items = list(items)
        self._init_guard(policy, pinned, exc)

    def __getitem__(self, i):
        return self.items[i]

    def __len__(self):
        return len(self.items)

    def index(self, v):
        return self.items.index(v)

    def __delitem__(self, i):
        if self._policy == 'all':
            self._refuse(i)
        pos = range(len(self.items))[i]
        if pos in self._pinned:
            self._refuse(i)
        del self.items[i]

    def __repr__(self):
        return 'GuardedSeq(%r%s)' % (self.items, self._tail())


class GuardedMap(_Guard):
    """mapping-like and no dict: key read and key deletion; registered on a Glommer with get= only"""
    def __init__(self, pairs, policy, pinned, exc):
        self.data = dict([(k, v) for k, v in pairs])
        self._init_guard(policy, pinned, exc)

    def __getitem__(self, k):
        return self.data[k]

    def __delitem__(self, k):
        if self._policy == 'all':
            self._refuse(k)
        if k not in self.data:
            raise KeyError(k)
        if any(type(p) is type(k) and p == k for p in self._pinned):
            self._refuse(k)
        del self.data[k]

    def __repr__(self):
        return 'GuardedMap(%r%s)' % (self.data, self._tail())


ITEM_HOLDERS = {'lsub': GuardedList, 'useq': GuardedSeq, 'dsub': GuardedDict, 'umap': GuardedMap}
SEQ_HOLDERS = ('lsub', 'useq')
MAP_KEYS = ['k', 'j', '1', 1, '0', 0, '-1', -1]
ITEM_ADDRS = {'P-text': ['str', 'str', 'path', 'path', 'mixed-p'], 'P-lit': ['path', 'mixed-p'], 'T': ['t', 't', 'path-t', 'mixed-t']}


def gen_refuseitem(draw):
    """the case is constructed towards a drawn outcome (the check does not read it: it asks the reference)"""
    holder = draw(st.sampled_from(['lsub', 'lsub', 'useq', 'dsub', 'umap']))
    seq = holder in SEQ_HOLDERS
    n = draw(st.sampled_from([1, 2, 3, 4]))
    want = draw(st.sampled_from(['refused', 'refused', 'refused', 'ok', 'missing', 'fault-absent']))
    values = [[10 + i] if draw(st.integers(0, 5)) == 0 else 10 + i for i in range(n)]
    if seq:
        keys, content = list(range(n)), values
    else:
        keys = draw(st.lists(st.sampled_from(MAP_KEYS), min_size=n, max_size=n, unique_by=repr))
        content = [[k, v] for k, v in zip(keys, values)]
    if want in ('refused', 'ok'):
        pos = draw(st.sampled_from(range(n)))
        seg = keys[pos]
        if seq and draw(st.booleans()):
            seg = pos - n                   # the same element, counted from the end
        others = [k for k in keys if k != keys[pos] or type(k) is not type(keys[pos])]
        extra = [k for k in others if draw(st.booleans())]
        if want == 'refused':
            policy, pinned = draw(st.sampled_from([('all', []), ('pinned', [keys[pos]] + extra)]))
        else:
            policy, pinned = draw(st.sampled_from([('none', []), ('pinned', extra)]))
    else:
        if seq:
            seg = draw(st.sampled_from([n, n + 1, -n - 1, 2 * n, -2 * n - 1]))
        else:
            seg = draw(st.sampled_from([k for k in MAP_KEYS + ['zz', 7, '7']
                                        if not any(type(k) is type(q) and k == q for q in keys)]))
        if want == 'fault-absent':
            policy, pinned = 'all', []
        else:
            policy, pinned = draw(st.sampled_from([('none', []), ('pinned', [k for k in keys if draw(st.booleans())])]))
    # how the final step is spelled: the text of the index / key, the index / key itself, or T[...]
    form = draw(st.sampled_from(['P-text', 'P-text', 'P-text', 'P-lit', 'T', 'T'] if seq else ['P', 'P', 'T']))
    if form == 'P-text':
        final = ['P', str(seg)]
    elif form == 'T':
        final = ['[', seg]
    else:
        final = ['P', seg]
        form = 'P-text' if isinstance(seg, str) else 'P-lit'
    return {'holder': holder, 'content': content, 'policy': policy, 'pinned': pinned,
            'exc': draw(st.sampled_from(sorted(REFUSALS))), 'final': final,
            'wrap': draw(st.sampled_from(['root', 'dict', 'dict', 'list', 'obj'])),
            'addr': draw(st.sampled_from(ITEM_ADDRS[form])),
            'ignore_missing': draw(st.sampled_from([True, True, False])),
            'api': draw(st.sampled_from(['func', 'spec']))}


def _wrap_holder(w, h):
    if w == 'root':
        return h, None
    if w == 'dict':
        return {'a': h, 'b': 1}, ('[', 'a')
    if w == 'list':
        return [0, h], ('[', 1)
    return tg.Obj(a=h, b=1), ('.', 'a')


def _item_target(recipe):
    import copy
    try:
        h = ITEM_HOLDERS[recipe['holder']](copy.deepcopy(recipe['content']), recipe['policy'], recipe['pinned'],
                                           REFUSALS[recipe['exc']])
    except Exception as e:
        raise HarnessBug('cannot build the holder of %r: %r' % (recipe, e))
    target, up = _wrap_holder(recipe['wrap'], h)
    return target, h, up


def _item_path(up, fop, fseg, addr):
    from glom import Path, T
    if up is None:
        tup, pre = T, ()
    else:
        tup, pre = (T[up[1]] if up[0] == '[' else getattr(T, up[1])), (up[1],)
    if fop == '[':
        if addr == 't':
            return tup[fseg]
        if addr == 'path-t':
            return Path(tup[fseg])
        if addr == 'mixed-t':
            return Path(*(pre + (T[fseg],)))
    else:
        if addr == 'str' and isinstance(fseg, str):
            return '.'.join([str(p) for p in pre] + [fseg])
        if addr == 'path':
            return Path(*(pre + (fseg,)))
        if addr == 'mixed-p':
            return Path(fseg) if up is None else Path(tup, fseg)
    raise HarnessBug('final step %r cannot be spelled as %r' % ((fop, fseg), addr))


def check_refuseitem(recipe, ctx):
    from glom import Glommer
    holder, ign, addr = recipe['holder'], recipe['ignore_missing'], recipe['addr']
    fop, fseg = recipe['final']
    seq = holder in SEQ_HOLDERS
    text_index = seq and fop == 'P' and isinstance(fseg, str)
    # reference: plain Python on an independently built holder; the text of an index denotes the index
    try:
        idx = int(fseg) if (seq and fop == 'P') else fseg
    except ValueError:
        raise HarnessBug('a sequence is addressed by a text that is no index: %r' % (recipe,))
    rt, rh, _ = _item_target(recipe)
    rpos_before = mc.positions(rt)
    try:
        rh[idx]
        present = True
    except LookupError:
        present = False
    try:
        del rh[idx]
        refusal = None
    except Exception as e:
        refusal = e
    if (refusal is None and not present) or (present and isinstance(refusal, LookupError)):
        raise HarnessBug('holder out of its own model (present=%r, del: %r): %r' % (present, refusal, recipe))
    if refusal is None:
        exp = 'ok'
    elif present:
        exp = 'refused'
    else:
        # a container that refuses before it looks at the index: "deleting from an immutable parent is a fault"
        exp = 'missing' if isinstance(refusal, LookupError) else 'fault-absent'
    target, h, up = _item_target(recipe)
    path = _item_path(up, fop, fseg, addr)
    final = 'final-text-index' if text_index else ('final-T' if fop == '[' else 'final-P')
    ctx.nontrivial(True)
    ctx.label('exp-' + exp, 'holder-' + holder, 'addr-' + addr, 'ignore' if ign else 'strict', final,
              'policy-' + recipe['policy'], 'wrap-' + recipe['wrap'])
    if ign:
        ctx.label('ignore-' + exp)
    if exp == 'refused':
        ctx.label('refusal-' + recipe['exc'])
        if ign:
            ctx.label('ignore-refused-' + final, 'ignore-refused-' + ('seq' if seq else 'map'))
    if text_index and idx < 0:
        ctx.label('negative-text-index')
    where = 'delete(%r, %r, ignore_missing=%r)' % (target, path, ign)
    before = tg.snapshot(target)
    pos_before = mc.positions(target)
    try:
        if holder in ('useq', 'umap'):
            g = Glommer()
            g.register(ITEM_HOLDERS[holder], get=(lambda o, k: o[int(k)]) if seq else (lambda o, k: o[k]))
            where = 'Glommer with %s registered (get= only): %s' % (ITEM_HOLDERS[holder].__name__, where)
            spec = Delete(path, ignore_missing=ign)
            res = g.glom(target, (spec,) if recipe['api'] == 'spec' else spec)
        elif recipe['api'] == 'spec':
            res = glom.glom(target, (Delete(path, ignore_missing=ign),))
        else:
            res = glom.delete(target, path, ignore_missing=ign)
        err = None
    except Exception as e:
        err = e
    if exp == 'ok':
        if err is not None:
            raise Mismatch('spurious-error', '%s: the element exists and del succeeds; glom raised %s: %r'
                           % (where, type(err).__name__, getattr(err, 'args', err)))
        if res is not target:
            raise Mismatch('wrong-return', '%s: must return the same object, got %r' % (where, res))
        if tg.structure(target) != tg.structure(rt):
            raise Mismatch('wrong-effect', '%s: expected %r, got %r' % (where, rt, target))
        pos_after, rpos_after = mc.positions(target), mc.positions(rt)
        for pos, oid in rpos_before.items():
            if rpos_after.get(pos) == oid and pos_after.get(pos) != pos_before.get(pos):
                raise Mismatch('frame', '%s: object at position %r was replaced or lost' % (where, pos))
        ctx.outcome([exp, holder, recipe['final']])
        return
    unchanged = tg.snapshot_diff(before, tg.snapshot(target))
    if unchanged:
        raise Mismatch('not-atomic', '%s: nothing deleted (%s) but the target changed: %s' % (where, exp, unchanged))
    if exp == 'refused':
        # present and del raises: an error in every addressing style, with and without ignore_missing (class not constrained)
        if err is None:
            raise Mismatch('refused-delete-reported-as-success' if ign else 'missing-error',
                           '%s: the element is present (plain Python reads it) and del raises %r; glom returned normally '
                           'and the element is still there' % (where, refusal))
    elif exp == 'fault-absent':
        # a fault, not a missing element: some exception; what ignore_missing makes of it is not constrained
        if err is None and not ign:
            raise Mismatch('missing-error', '%s: del raises %r; glom returned normally' % (where, refusal))
    elif ign:
        if err is not None:
            raise Mismatch('ignore-missing-not-honoured', '%s: the element is absent (read and del both raise: %r), '
                           'ignore_missing=True, glom raised %s: %r' % (where, refusal, type(err).__name__, getattr(err, 'args', err)))
        if res is not target:
            raise Mismatch('wrong-return', '%s: must return the target' % where)
    else:
        if not isinstance(err, PathDeleteError):
            raise Mismatch('wrong-error-class' if err is not None else 'missing-error',
                           '%s: the element is absent: expected PathDeleteError, got %r' % (where, err))
    ctx.outcome([exp, holder, recipe['final'], type(err).__name__ if err is not None else None])


# ---------------------------------------------------------------------------
# user containers registered on a Glommer without a delete= handler: the handler is discovered from the type

class EvictOnly(object):
    """supports item read and item deletion, not item assignment"""
    __slots__ = ('d',)

    def __init__(self, d):
        self.d = dict(d)

    def __getitem__(self, k):
        return self.d[k]

    def __delitem__(self, k):
        del self.d[k]

    def __repr__(self):
        return 'EvictOnly(%r)' % (self.d,)


class DrainOnly(object):
    """sequence-like: index read, index deletion and .index(), no item assignment"""
    __slots__ = ('l',)

    def __init__(self, l):
        self.l = list(l)

    def __getitem__(self, i):
        return self.l[i]

    def __delitem__(self, i):
        del self.l[i]

    def index(self, v):
        return self.l.index(v)

    def __repr__(self):
        return 'DrainOnly(%r)' % (self.l,)


class SetOnly(object):
    """supports item assignment but not item deletion; plain attributes can be deleted"""
    def __init__(self):
        self.attr = 1
        self.other = 2

    def __setitem__(self, k, v):
        self.__dict__[k] = v

    def __repr__(self):
        return 'SetOnly(%r)' % (sorted(self.__dict__),)


def gen_registered(draw):
    return {'kind': draw(st.sampled_from(['evict', 'drain', 'setonly'])),
            'present': draw(st.booleans()), 'ignore_missing': draw(st.booleans()),
            'spelling': draw(st.sampled_from(['str', 'path']))}


def check_registered(recipe, ctx):
    from glom import Glommer, Path
    g = Glommer()
    kind = recipe['kind']
    if kind == 'evict':
        box = EvictOnly({'k': 1, 'j': 2})
        seg = 'k' if recipe['present'] else 'zz'
        g.register(EvictOnly, get=lambda o, k: o[k])
        expect = (lambda: box.d == ({'j': 2} if recipe['present'] else {'k': 1, 'j': 2}))
    elif kind == 'drain':
        box = DrainOnly([10, 11, 12])
        seg = '1' if recipe['present'] else '7'
        g.register(DrainOnly, get=lambda o, k: o[int(k)])
        expect = (lambda: box.l == ([10, 12] if recipe['present'] else [10, 11, 12]))
    else:
        box = SetOnly()
        seg = 'attr' if recipe['present'] else 'zz'
        g.register(SetOnly)
        expect = (lambda: sorted(box.__dict__) == (['other'] if recipe['present'] else ['attr', 'other']))
    target = {'c': box}
    spec = Delete('c.' + seg if recipe['spelling'] == 'str' else Path('c', seg), ignore_missing=recipe['ignore_missing'])
    where = 'Glommer with %s registered (no delete= handler): glom(%r, %r)' % (type(box).__name__, target, spec)
    ctx.nontrivial(True)
    ctx.label('kind-' + kind, 'present' if recipe['present'] else 'absent')
    try:
        res = g.glom(target, spec)
        err = None
    except Exception as e:
        err = e
    if recipe['present'] or recipe['ignore_missing']:
        if err is not None:
            raise Mismatch('spurious-error', '%s: raised %s: %s' % (where, type(err).__name__, str(err).splitlines()[-1][:200]))
        if res is not target:
            raise Mismatch('wrong-return', where)
    else:
        if not isinstance(err, PathDeleteError):
            raise Mismatch('wrong-error-class', '%s: the element is absent: expected PathDeleteError, got %r' % (where, err))
    if not expect():
        raise Mismatch('wrong-effect', '%s: container is now %r' % (where, box))
    ctx.outcome([kind, recipe['present'], recipe['ignore_missing']])


def gen_wild(draw):
    from . import c14
    r = c14.gen_mutate(draw)
    r['op'] = 'delete'
    if draw(st.booleans()):
        r['final'] = draw(st.sampled_from(['x', 'y']))
    return r


def check_wild(recipe, ctx):
    from . import c14
    return c14.check_mutate(recipe, ctx)


SUBS = [
    Sub('delete', check, gen=gen, quick=5000, thorough=15000,
        floors={'exp-ok': 0.15, 'exp-err-final': 0.05, 'exp-err-parent': 0.05, 'spelling-str': 0.1, 'spelling-t': 0.02}),
    Sub('computed', check_computed, gen=gen_computed, quick=1000, thorough=6000,
        floors={'computed-final': 0.23, 'computed-final-ok': 0.12, 'computed-final-err': 0.1, 'computed-middle': 0.25,
                'keyform-t': 0.24, 'keyform-spec-str': 0.07, 'keyform-spec-t': 0.04, 'keyform-val': 0.045, 'keyform-scope': 0.05,
                'spelling-t': 0.2}),
    Sub('refuse', check_refuse, gen=gen_refuse, quick=1200, thorough=6000,
        # (2 of 5 cases come from the F100 holders since then: the shares of the older classes are 0.6 of what they were, at
        # twice the case count)
        floors={'ignore-refused': 0.11, 'ignore-missing': 0.15, 'exp-ok': 0.04, 'final-attr': 0.24, 'final-P': 0.24,
                'holder-frozen': 0.016, 'holder-roprop': 0.016, 'holder-setteronly': 0.016, 'holder-sealed': 0.016,
                'holder-ntuple': 0.016, 'holder-float': 0.016, 'holder-complex': 0.016, 'holder-range': 0.016,
                'holder-slice': 0.016, 'addr-str': 0.07, 'addr-path': 0.06, 'addr-t': 0.07,
                'ignore-notown': 0.098, 'ignore-notown-autoviv': 0.026, 'ignore-notown-classvalue': 0.019,
                'ignore-notown-fallback': 0.016, 'ignore-notown-inherited': 0.015, 'ignore-notown-method': 0.0095,
                'notown-unsetslot': 0.012, 'strict-notown': 0.045, 'strict-notown-autoviv': 0.009}),
    Sub('refuseitem', check_refuseitem, gen=gen_refuseitem, quick=800, thorough=3000,
        floors={'ignore-refused-final-text-index': 0.06, 'ignore-refused-final-P': 0.08, 'ignore-refused-final-T': 0.03,
                'ignore-refused-seq': 0.1, 'ignore-refused-map': 0.07, 'negative-text-index': 0.04,
                'exp-ok': 0.06, 'exp-missing': 0.055, 'ignore-missing': 0.045, 'exp-fault-absent': 0.08,
                'holder-lsub': 0.14, 'holder-useq': 0.08, 'holder-dsub': 0.09, 'holder-umap': 0.12, 'policy-pinned': 0.13,
                'addr-str': 0.13, 'addr-path': 0.15, 'addr-t': 0.04,
                'refusal-TypeError': 0.012, 'refusal-RuntimeError': 0.02, 'refusal-ValueError': 0.018,
                'refusal-AttributeError': 0.06, 'refusal-Refused': 0.012}),
    Sub('wild', check_wild, gen=gen_wild, quick=1500, thorough=5000, floors={'wild-2': 0.1, 'wild-3': 0.1}),
    Sub('registered', check_registered, gen=gen_registered, quick=300, thorough=1000),
]
