"""C12 — delete removes exactly the addressed element, or nothing.

Generator: as C11 - tree-shaped targets with immutable and fault-injecting containers; paths by
walking the target (parent present/absent at every position, final element present/absent), every
admissible spelling (dotted string, Path with T chunks, pure T, S-rooted), ignore_missing in
{False, True}; delete() and Delete inside a tuple spec; plus Delete through 1-3 wildcards.

Oracle: Python's `del` on an independently built copy.
"""
from hypothesis import strategies as st

import glom
from glom import Delete, GlomError, PathAccessError, PathDeleteError

from ..runner import Sub, Mismatch
from .. import targets as tg
from .. import mutcommon as mc

PROPERTY = 'C12'
RULE = ('targets: tree-shaped recipes (depth <= 3) incl. immutable and fault-injecting containers; paths of 1-4 steps '
        'whose parent or final element is present or absent at every position, in every admissible spelling, with '
        'ignore_missing False/True. Non-trivial = path length >= 2, or a missing element, or a fault.')
ASSUMPTIONS = [
    'reference = Python del on an independently built copy of the same recipe',
    'deletion faults (immutable containers, raising __delitem__/__delattr__): some exception, class not constrained, target unchanged',
]


class RefErr(Exception):
    def __init__(self, kind, k=None, exc=None):
        Exception.__init__(self, kind, k, exc)
        self.kind, self.k, self.exc = kind, k, exc


MISSING_FINAL = (KeyError, IndexError, AttributeError)


def do_delete(cur, op, seg):
    if op == 'P':
        if isinstance(cur, dict):
            del cur[seg]
        elif isinstance(cur, list):
            del cur[int(seg)]
        elif isinstance(cur, (tuple, str, bytes, frozenset, int, float, type(None), bool)):
            raise TypeError('immutable')
        else:
            delattr(cur, seg)
    elif op == '[':
        del cur[seg]
    else:
        delattr(cur, seg)


def ref_delete(target, steps):
    cur = target
    for k in range(len(steps) - 1):
        op, seg = steps[k]
        try:
            cur = mc.access(cur, op, seg)
        except mc.ACCESS_ERRORS as e:
            if (op == '[' and isinstance(e, ValueError)) or (op == '.' and not isinstance(e, AttributeError)):
                raise RefErr('other', k, e)
            raise RefErr('parent', k, e)
    op, seg = steps[-1]
    # classify "element is absent" without side effects
    try:
        mc.access(cur, op, seg)
        present = True
    except MISSING_FINAL:
        present = False
    except TypeError:
        # an attribute whose name is not a string cannot exist: absent, not a fault
        present = False if (mc.kind_of(cur) == 'attr' and not isinstance(seg, str) and op == 'P'
                            and not isinstance(cur, (tuple, str, bytes, frozenset, int, float, type(None), bool))) else None
    except Exception:
        present = None
    if isinstance(cur, (tuple, str, bytes, frozenset, int, float, type(None), bool)):
        err = RefErr('fault', len(steps) - 1, TypeError('immutable container'))
        err.present = present
        raise err
    try:
        do_delete(cur, op, seg)
    except Exception as e:
        if present is False and not isinstance(cur, (mc.FaultDict, mc.FaultObj)) and isinstance(e, MISSING_FINAL + (TypeError,)):
            raise RefErr('final', len(steps) - 1, e)
        err = RefErr('fault', len(steps) - 1, e)
        err.present = present
        raise err


def gen(draw):
    trec = mc.gen_target(draw)
    target = mc.build(trec).obj
    steps = mc.gen_steps(draw, target, final_present=draw(st.sampled_from([True, True, False, None])))
    return {'target': trec, 'steps': steps, 'ignore_missing': draw(st.booleans()),
            'api': draw(st.sampled_from(['func', 'spec']))}


def check(recipe, ctx):
    steps = [(op, seg) for op, seg in recipe['steps']]
    ign = recipe['ignore_missing']
    rb = mc.build(recipe['target'])
    rpos_before = mc.positions(rb.obj)
    try:
        ref_delete(rb.obj, steps)
        exp = ('ok',)
    except RefErr as e:
        exp = ('err', e.kind, e.k, e.exc, getattr(e, 'present', None))
    ctx.label('exp-' + (exp[0] if exp[0] == 'ok' else 'err-' + exp[1]), 'len-%d' % len(steps),
              'ignore' if ign else 'strict')
    ctx.nontrivial(len(steps) >= 2 or exp[0] == 'err')
    for sp in mc.spellings(steps):
        gb = mc.build(recipe['target'])
        g = gb.obj
        path = mc.make_path(steps, sp)
        before = tg.snapshot(g)
        pos_before = mc.positions(g)
        where = 'spelling=%s delete(%r, %r, ignore_missing=%r)' % (sp, g, path, ign)
        scope = {'tgt': g} if sp == 's-rooted' else {}
        ctx.label('spelling-' + sp)
        try:
            if sp == 's-rooted' or recipe['api'] == 'spec':
                res = glom.glom(g, (Delete(path, ignore_missing=ign),), scope=scope)
            else:
                res = glom.delete(g, path, ignore_missing=ign)
            err = None
        except Exception as e:
            err = e
        if exp[0] == 'ok':
            if err is not None:
                raise Mismatch('spurious-error', '%s: the element exists and del succeeds; glom raised %s: %r'
                               % (where, type(err).__name__, getattr(err, 'args', err)))
            if res is not g:
                raise Mismatch('wrong-return', '%s: must return the same object, got %r' % (where, res))
            if tg.structure(g) != tg.structure(rb.obj):
                raise Mismatch('wrong-effect', '%s: expected %r, got %r' % (where, rb.obj, g))
            pos_after = mc.positions(g)
            rpos_after = mc.positions(rb.obj)
            for pos, oid in rpos_before.items():
                if rpos_after.get(pos) == oid:
                    if pos_after.get(pos) != pos_before.get(pos):
                        raise Mismatch('frame', '%s: object at position %r was replaced or lost' % (where, pos))
            continue
        kind = exp[1]
        unchanged = tg.snapshot_diff(before, tg.snapshot(g))
        if kind in ('parent', 'final') and ign:
            if err is not None:
                raise Mismatch('ignore-missing-not-honoured', '%s: %s element is absent, ignore_missing=True, glom raised %s: %r'
                               % (where, kind, type(err).__name__, getattr(err, 'args', err)))
            if res is not g:
                raise Mismatch('wrong-return', '%s: must return the target' % where)
            if unchanged:
                raise Mismatch('not-atomic', '%s: nothing to delete but the target changed: %s' % (where, unchanged))
            continue
        if kind == 'fault' and ign:
            # the element is PRESENT and its deletion is refused: that is not a missing element.  "A successful delete
            # has exactly the effect of Python's del": returning normally with the element still there is no option,
            # in any addressing style.  (A refusal that looks exactly like absence - AttributeError / LookupError from
            # the container itself - cannot be told apart and is not constrained.)
            if unchanged:
                raise Mismatch('not-atomic', '%s: deletion refused but the target changed: %s' % (where, unchanged))
            if err is None and exp[4] is True and not isinstance(exp[3], (AttributeError, LookupError, ValueError)):
                ctx.label('fault-under-ignore-missing')
                raise Mismatch('refused-delete-reported-as-success', '%s: the element is present and del raises %r; glom returned '
                               'normally and the element is still there' % (where, exp[3]))
            ctx.label('fault-under-ignore-missing')
            continue
        if err is None:
            raise Mismatch('missing-error', '%s: del fails (%s at step %s: %r); glom returned %r'
                           % (where, kind, exp[2], exp[3], res))
        if unchanged:
            raise Mismatch('not-atomic', '%s: failed (%s) but the target changed: %s' % (where, type(err).__name__, unchanged))
        if kind == 'parent':
            if not isinstance(err, PathAccessError):
                raise Mismatch('wrong-error-class', '%s: a parent is absent (step %d): expected PathAccessError, got %s: %r'
                               % (where, exp[2], type(err).__name__, getattr(err, 'args', err)))
        elif kind == 'final':
            if not isinstance(err, PathDeleteError):
                raise Mismatch('wrong-error-class', '%s: the final element is absent: expected PathDeleteError, got %s: %r'
                               % (where, type(err).__name__, getattr(err, 'args', err)))
    ctx.outcome([exp[0], exp[1] if exp[0] == 'err' else None, repr(recipe['steps'])])


# ---------------------------------------------------------------------------
# user containers registered on a Glommer without a delete= handler: the handler is discovered from the type

class EvictOnly(object):
    """supports item read and item deletion, not item assignment"""
    __slots__ = ('d',)

    def __init__(self, d):
        self.d = dict(d)

    def __getitem__(self, k):
        return self.d[k]

    def __delitem__(self, k):
        del self.d[k]

    def __repr__(self):
        return 'EvictOnly(%r)' % (self.d,)


class DrainOnly(object):
    """sequence-like: index read, index deletion and .index(), no item assignment"""
    __slots__ = ('l',)

    def __init__(self, l):
        self.l = list(l)

    def __getitem__(self, i):
        return self.l[i]

    def __delitem__(self, i):
        del self.l[i]

    def index(self, v):
        return self.l.index(v)

    def __repr__(self):
        return 'DrainOnly(%r)' % (self.l,)


class SetOnly(object):
    """supports item assignment but not item deletion; plain attributes can be deleted"""
    def __init__(self):
        self.attr = 1
        self.other = 2

    def __setitem__(self, k, v):
        self.__dict__[k] = v

    def __repr__(self):
        return 'SetOnly(%r)' % (sorted(self.__dict__),)


def gen_registered(draw):
    return {'kind': draw(st.sampled_from(['evict', 'drain', 'setonly'])),
            'present': draw(st.booleans()), 'ignore_missing': draw(st.booleans()),
            'spelling': draw(st.sampled_from(['str', 'path']))}


def check_registered(recipe, ctx):
    from glom import Glommer, Path
    g = Glommer()
    kind = recipe['kind']
    if kind == 'evict':
        box = EvictOnly({'k': 1, 'j': 2})
        seg = 'k' if recipe['present'] else 'zz'
        g.register(EvictOnly, get=lambda o, k: o[k])
        expect = (lambda: box.d == ({'j': 2} if recipe['present'] else {'k': 1, 'j': 2}))
    elif kind == 'drain':
        box = DrainOnly([10, 11, 12])
        seg = '1' if recipe['present'] else '7'
        g.register(DrainOnly, get=lambda o, k: o[int(k)])
        expect = (lambda: box.l == ([10, 12] if recipe['present'] else [10, 11, 12]))
    else:
        box = SetOnly()
        seg = 'attr' if recipe['present'] else 'zz'
        g.register(SetOnly)
        expect = (lambda: sorted(box.__dict__) == (['other'] if recipe['present'] else ['attr', 'other']))
    target = {'c': box}
    spec = Delete('c.' + seg if recipe['spelling'] == 'str' else Path('c', seg), ignore_missing=recipe['ignore_missing'])
    where = 'Glommer with %s registered (no delete= handler): glom(%r, %r)' % (type(box).__name__, target, spec)
    ctx.nontrivial(True)
    ctx.label('kind-' + kind, 'present' if recipe['present'] else 'absent')
    try:
        res = g.glom(target, spec)
        err = None
    except Exception as e:
        err = e
    if recipe['present'] or recipe['ignore_missing']:
        if err is not None:
            raise Mismatch('spurious-error', '%s: raised %s: %s' % (where, type(err).__name__, str(err).splitlines()[-1][:200]))
        if res is not target:
            raise Mismatch('wrong-return', where)
    else:
        if not isinstance(err, PathDeleteError):
            raise Mismatch('wrong-error-class', '%s: the element is absent: expected PathDeleteError, got %r' % (where, err))
    if not expect():
        raise Mismatch('wrong-effect', '%s: container is now %r' % (where, box))
    ctx.outcome([kind, recipe['present'], recipe['ignore_missing']])


def gen_wild(draw):
    from . import c14
    r = c14.gen_mutate(draw)
    r['op'] = 'delete'
    if draw(st.booleans()):
        r['final'] = draw(st.sampled_from(['x', 'y']))
    return r


def check_wild(recipe, ctx):
    from . import c14
    return c14.check_mutate(recipe, ctx)


SUBS = [
    Sub('delete', check, gen=gen, quick=5000, thorough=15000,
        floors={'exp-ok': 0.15, 'exp-err-final': 0.05, 'exp-err-parent': 0.05, 'spelling-str': 0.1, 'spelling-t': 0.02}),
    Sub('wild', check_wild, gen=gen_wild, quick=1500, thorough=5000, floors={'wild-2': 0.1, 'wild-3': 0.1}),
    Sub('registered', check_registered, gen=gen_registered, quick=300, thorough=1000),
]
