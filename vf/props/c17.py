"""C17 — Iter pipelines equal the itertools composition, stay lazy, never mutate specs.

Sub-checks
  pipeline   stage sequences (0-4 stages) over map, filter, slice, limit, takewhile, dropwhile, chunked
             (with/without fill), windowed, split, unique, flatten; optional Iter(subspec) producing
             SKIP/STOP and sentinel=; terminals iteration / all() / first(key, default); finite and
             endless instrumented sources; each spec evaluated twice
  builder    builder histories: a prefix spec is extended into several derived specs and then used
             again (Iter and Invoke)
  sentinel   Iter(sentinel=x) over streams of COMPUTED values (strings, ints > 256, floats, floats vs ints,
             tuples): x is equal to a stream value without being the same object, is the very object, equals only
             the raw item in front of the sub-spec, or is absent; with and without a sub-spec; hit at the first /
             a middle / the last position; type-agnostic stages behind; same oracle and laziness bound as `pipeline`

Oracle: refpipe() - the same stages as small independent generator functions.
"""
import itertools

from hypothesis import strategies as st

import glom
from glom import Iter, T, SKIP, STOP, Invoke, Val, GlomError

from ..runner import Sub, Mismatch, HarnessBug
from .. import targets as tg

PROPERTY = 'C17'
RULE = ('stage sequences of length 0-4 over the eleven stage kinds with small parameters, type-tracked (int items / sequence items) '
        'so that most pipelines are well-typed; sources: finite lists and endless cyclic counters with a pull budget; '
        'the first k <= 10 outputs and the number of source pulls are compared. '
        'Non-trivial = >= 2 stages of different kinds, or an endless source, or a re-used base spec, or a sentinel that is equal to a stream value without being that object.')
ASSUMPTIONS = [
    'reference stages are written independently of boltons (own chunked/windowed/split/unique)',
    'laziness: pulls(glom, k outputs) <= pulls(reference, k outputs) + per-stage look-ahead allowance (window size, chunk size, 1); '
    'when the input of a windowed(n) stage never yields n-1 items (an endless source whose items are all skipped) the allowed look-ahead itself diverges and nothing is asserted',
    'SKIP/STOP returned from a .map() stage are ordinary values; split(maxsplit=0) is not generated',
    'the sentinel is looked for among the values Iter(subspec) produces (behind the sub-spec), "same as with the built-in iter()": '
    'the stream ends in front of the first value v with v is sentinel or v == sentinel; no sentinel= means no comparison at all',
]
BUDGET = 3000
K = 10


class Src(object):
    """instrumented source: counts pulls, raises BudgetExceeded beyond the budget"""
    __slots__ = ('items', 'endless', 'pulls', 'pos')

    def __init__(self, items, endless):
        self.items, self.endless, self.pulls, self.pos = items, endless, 0, 0

    def __iter__(self):
        return self

    def __next__(self):
        if self.pos >= len(self.items):
            if not self.endless or not self.items:
                raise StopIteration
            self.pos = 0
        self.pulls += 1
        if self.pulls > BUDGET:
            raise tg.BudgetExceeded(self.pulls)
        v = self.items[self.pos]
        self.pos += 1
        return v

    def __repr__(self):
        return '<Src %r%s>' % (self.items, ' endless' if self.endless else '')


def lt(k):
    def f(x):
        return x < k
    f.__name__ = 'lt%d' % k
    return f


def skip3_stop5(x):
    if x == 3:
        return SKIP
    if x == 5:
        return STOP
    return x


def skip_even(x):
    return SKIP if x % 2 == 0 else x


# ---------------------------------------------------------------------------
# generation

def gen_stage(draw, state):
    S = st.sampled_from
    if state == 'int':
        kind = draw(S(['map', 'filter', 'slice', 'limit', 'takewhile', 'dropwhile', 'chunked', 'windowed', 'split', 'unique', 'map', 'filter']))
        if kind == 'map':
            return ['map', draw(S(['dbl', 'inc', 'mod3']))], 'int'
        if kind == 'filter':
            return ['filter', draw(S(['odd', 'T', 'gt2']))], 'int'
        if kind == 'takewhile':
            return ['takewhile', draw(st.integers(1, 6))], 'int'
        if kind == 'dropwhile':
            return ['dropwhile', draw(st.integers(1, 6))], 'int'
        if kind == 'chunked':
            return ['chunked', draw(st.integers(1, 3)), draw(S(['nofill', 'nofill', 0, None]))], 'seq'
        if kind == 'windowed':
            return ['windowed', draw(st.integers(1, 3))], 'seq'
        if kind == 'split':
            return ['split', draw(S([0, 3, None, [0, 1]])), draw(S([None, None, 1, 2]))], 'seq'
        if kind == 'unique':
            return ['unique', draw(S(['T', 'mod3']))], 'int'
    else:
        kind = draw(S(['flatten', 'flatten', 'maplen', 'slice', 'limit', 'uniquelen', 'filterT']))
        if kind == 'flatten':
            return ['flatten'], 'int'
        if kind == 'maplen':
            return ['map', 'len'], 'int'
        if kind == 'uniquelen':
            return ['unique', 'len'], 'seq'
        if kind == 'filterT':
            return ['filter', 'T'], 'seq'
    if kind == 'slice':
        a = draw(S([None, 0, 1, 2]))
        b = draw(S([None, 2, 4, 7]))
        c = draw(S([None, 1, 2]))
        form = draw(st.integers(1, 3))
        args = [b] if form == 1 else ([a, b] if form == 2 else [a, b, c])
        return ['slice', args], state
    return ['limit', draw(st.integers(0, 5))], state


def gen_stages(draw, maxn=4):
    stages = []
    state = 'int'
    for _ in range(draw(st.integers(0, maxn))):
        s, state = gen_stage(draw, state)
        stages.append(s)
    return stages, state


def gen_source(draw):
    items = [draw(st.integers(0, 7)) for _ in range(draw(st.integers(0, 8)))]
    endless = draw(st.sampled_from([False, False, True]))
    if endless and not items:
        items = [1, 2]
    return {'items': items, 'endless': endless}


def gen(draw):
    stages, state = gen_stages(draw)
    src = gen_source(draw)
    terminal = draw(st.sampled_from(['iter', 'iter', 'all', 'first']))
    if src['endless'] and terminal == 'all':
        terminal = 'iter'
    return {'source': src, 'stages': stages,
            'subspec': draw(st.sampled_from([None, None, None, 'skip3_stop5', 'skip_even', 'inc'])),
            # (4.0 == 4 without being the int object 4: the built-in iter(callable, sentinel) compares with ==)
            'sentinel': draw(st.sampled_from(['default', 'default', 'default', 4, None, 4.0])),
            'terminal': terminal,
            'first': [draw(st.sampled_from(['T', 'gt4', 'never'])), draw(st.sampled_from([None, 'dflt']))],
            'final_state': state}


def gen_agnostic_stages(draw):
    """stages that work on items of any (hashable) type"""
    S = st.sampled_from
    stages = []
    state = 'item'
    for _ in range(draw(S([0, 0, 1, 1, 2, 3]))):
        kind = draw(S(['limit', 'slice', 'chunked', 'windowed', 'unique', 'filter'] if state == 'item'
                      else ['flatten', 'flatten', 'limit', 'slice', 'filter']))
        if kind == 'limit':
            stages.append(['limit', draw(S(range(0, 6)))])
        elif kind == 'slice':
            a, b, c = draw(S([None, 0, 1, 2])), draw(S([None, 2, 4, 7])), draw(S([None, 1, 2]))
            form = draw(S([1, 2, 3]))
            stages.append(['slice', [b] if form == 1 else ([a, b] if form == 2 else [a, b, c])])
        elif kind == 'chunked':
            stages.append(['chunked', draw(S([1, 2, 3])), draw(S(['nofill', 'nofill', None]))])
            state = 'seq'
        elif kind == 'windowed':
            stages.append(['windowed', draw(S([1, 2, 3]))])
            state = 'seq'
        elif kind == 'unique':
            stages.append(['unique', 'T'])
        elif kind == 'filter':
            stages.append(['filter', 'T'])
        else:
            stages.append(['flatten'])
            state = 'item'
    return stages, state


def gen_sentinel(draw):
    """Iter(sentinel=) over computed values: the sentinel is aimed at a chosen position of the stream"""
    S = st.sampled_from
    dom = draw(S(sorted(DOMAINS)))
    sub = draw(st.booleans())
    ns = [draw(S(range(6))) for _ in range(draw(S(range(0, 9))))]
    endless = draw(S([False, False, True]))
    if endless and not ns:
        ns = [1, 2]
    kind = draw(S(['eq', 'eq', 'eq', 'eq', 'same', 'raw', 'default']))
    if kind == 'default':
        sentinel = 'default'
    elif kind == 'same':
        sentinel = ['same', draw(S(range(max(len(ns), 1))))]
    else:
        where = draw(S(['first', 'last', 'last', 'any', 'any', 'absent']))
        if not ns or where == 'absent':
            n = draw(S([6, 7]))                 # the stream values are made from 0..5
        else:
            n = ns[0] if where == 'first' else (ns[-1] if where == 'last' else draw(S(ns)))
        sentinel = [kind, n]
    stages, state = gen_agnostic_stages(draw)
    terminal = draw(S(['iter', 'iter', 'all', 'first']))
    if endless and terminal == 'all':
        terminal = 'iter'
    return {'domain': dom, 'source': {'items': ns, 'endless': endless}, 'stages': stages,
            'subspec': DOMAINS[dom]['sub'] if sub else None, 'sentinel': sentinel, 'terminal': terminal,
            'first': [draw(S(['T', 'never'])), draw(S([None, 'dflt']))], 'final_state': state}


# ---------------------------------------------------------------------------
# builders

MAPS = {'dbl': lambda: T * 2, 'inc': lambda: T + 1, 'mod3': lambda: T % 3, 'len': lambda: len}
REFMAPS = {'dbl': lambda x: x * 2, 'inc': lambda x: x + 1, 'mod3': lambda x: x % 3, 'len': len}
FILTERS = {'odd': lambda: T % 2, 'T': lambda: T, 'gt2': lambda: lt_not(3)}
REFFILTERS = {'odd': lambda x: x % 2, 'T': lambda x: x, 'gt2': lambda x: x >= 3}
UNIQ = {'T': lambda: T, 'mod3': lambda: T % 3, 'len': lambda: len}
REFUNIQ = {'T': lambda x: x, 'mod3': lambda x: x % 3, 'len': len}


def lt_not(k):
    def f(x):
        return x >= k
    f.__name__ = 'ge%d' % k
    return f


def add_stage(it, s):
    kind = s[0]
    if kind == 'map':
        return it.map(MAPS[s[1]]())
    if kind == 'filter':
        return it.filter(FILTERS[s[1]]()) if s[1] != 'T' else it.filter()
    if kind == 'slice':
        return it.slice(*s[1])
    if kind == 'limit':
        return it.limit(s[1])
    if kind == 'takewhile':
        return it.takewhile(lt(s[1]))
    if kind == 'dropwhile':
        return it.dropwhile(lt(s[1]))
    if kind == 'chunked':
        return it.chunked(s[1]) if s[2] == 'nofill' else it.chunked(s[1], fill=s[2])
    if kind == 'windowed':
        return it.windowed(s[1])
    if kind == 'split':
        kw = {}
        if s[1] is not None:
            kw['sep'] = s[1]
        if s[2] is not None:
            kw['maxsplit'] = s[2]
        return it.split(**kw)
    if kind == 'unique':
        return it.unique(UNIQ[s[1]]()) if s[1] != 'T' else it.unique()
    if kind == 'flatten':
        return it.flatten()
    raise ValueError(s)


# sub-specs of Iter(subspec): name -> (glom spec, plain function of the reference)
SUBSPECS = {
    'skip3_stop5': (lambda: skip3_stop5, skip3_stop5),
    'skip_even': (lambda: skip_even, skip_even),
    'inc': (lambda: T + 1, lambda x: x + 1),
    'strip': (lambda: T.strip(), lambda x: x.strip()),
    'int': (lambda: int, int),
    'half': (lambda: T / 2, lambda x: x / 2),
    'tuple': (lambda: tuple, tuple),
}

NOSENT = object()        # no sentinel= given


# value domains of the `sentinel` sub-check.  Every function builds its value at run time, so two calls give two EQUAL
# objects that are not the same object (check() verifies that).  n is a small int from the recipe.
#   raw0(n): source item when there is no sub-spec        raw1(n): source item in front of the sub-spec `sub`
#   sent(n): the sentinel that equals the stream value n
DOMAINS = {
    'str': {'raw0': lambda n: 'w%d' % n, 'raw1': lambda n: ' w%d\n' % n, 'sub': 'strip', 'sent': lambda n: ''.join(['w', str(n)])},
    'bigint': {'raw0': lambda n: int(str(1000 + n)), 'raw1': lambda n: str(1000 + n), 'sub': 'int', 'sent': lambda n: int('1%03d' % n)},
    'float': {'raw0': lambda n: float(n), 'raw1': lambda n: 2 * n, 'sub': 'half', 'sent': lambda n: float(str(n))},
    # stream of small ints (which ARE shared objects), sentinel a float equal to one of them
    'intfloat': {'raw0': lambda n: n, 'raw1': lambda n: n - 1, 'sub': 'inc', 'sent': lambda n: float(n)},
    'tuple': {'raw0': lambda n: tuple([n, 'x']), 'raw1': lambda n: [n, 'x'], 'sub': 'tuple', 'sent': lambda n: tuple([n, 'x'])},
}


def realize(recipe):
    """-> (source items, sentinel object | NOSENT); called once per check: both evaluations see the same objects"""
    dom = recipe.get('domain')
    s = recipe['sentinel']
    if dom is None:
        return list(recipe['source']['items']), (NOSENT if s == 'default' else s)
    d = DOMAINS[dom]
    raw = d['raw1'] if recipe['subspec'] is not None else d['raw0']
    items = [raw(n) for n in recipe['source']['items']]
    if s == 'default':
        return items, NOSENT
    if s[0] == 'eq':            # a new object equal to the stream value n
        return items, d['sent'](s[1])
    if s[0] == 'same':          # the source item itself
        return items, (items[s[1] % len(items)] if items else d['sent'](s[1]))
    if s[0] == 'raw':           # equal to the item in front of the sub-spec
        return items, raw(s[1])
    raise ValueError(s)


def build_iter(recipe, stages=None, sentinel=NOSENT):
    """(the sentinel object comes from realize(); the builder histories use none)"""
    sub = None if recipe['subspec'] is None else SUBSPECS[recipe['subspec']][0]()
    kw = {}
    if sentinel is not NOSENT:
        kw['sentinel'] = sentinel
    it = Iter(**kw) if sub is None else Iter(sub, **kw)
    for s in (recipe['stages'] if stages is None else stages):
        it = add_stage(it, s)
    return it


# ---------------------------------------------------------------------------
# reference stages (independent implementations)

def r_base(src, recipe, sentinel=NOSENT):
    """Iter(subspec, sentinel=): map the sub-spec over the source; SKIP drops the item, STOP ends the stream, and so does
    the sentinel - "Same as with the built-in iter()": iter(callable, sentinel) ends at the first value that IS or EQUALS
    the sentinel (identity first, then ==) and does not yield it."""
    f = None if recipe['subspec'] is None else SUBSPECS[recipe['subspec']][1]
    for x in src:
        y = x if f is None else f(x)
        if y is SKIP:
            continue
        if y is STOP:
            return
        if sentinel is not NOSENT and (y is sentinel or y == sentinel):
            return
        yield y


def r_chunked(it, size, fill):
    chunk = []
    for x in it:
        chunk.append(x)
        if len(chunk) == size:
            yield chunk
            chunk = []
    if chunk:
        if fill != 'nofill':
            chunk = chunk + [fill] * (size - len(chunk))
        yield chunk


def r_windowed(it, size):
    win = []
    for x in it:
        win.append(x)
        if len(win) > size:
            win.pop(0)
        if len(win) == size:
            yield tuple(win)


def r_split(it, sep, maxsplit):
    if sep is None:
        is_sep = lambda x: x is None or x == None      # noqa: E711
    elif isinstance(sep, list):
        is_sep = lambda x: x in sep
    else:
        is_sep = lambda x: x == sep
    group = []
    count = 0
    for x in it:
        if (maxsplit is None or count < maxsplit) and is_sep(x):
            if sep is None and not group:
                continue
            count += 1
            yield group
            group = []
        else:
            group.append(x)
    if group or sep is not None:
        yield group


def r_unique(it, key):
    seen = []
    for x in it:
        k = key(x)
        if k not in seen:
            seen.append(k)
            yield x


def r_stage(it, s):
    kind = s[0]
    if kind == 'map':
        return (REFMAPS[s[1]](x) for x in it)
    if kind == 'filter':
        return (x for x in it if REFFILTERS[s[1]](x))
    if kind == 'slice':
        return itertools.islice(it, *s[1])
    if kind == 'limit':
        return itertools.islice(it, s[1])
    if kind == 'takewhile':
        return itertools.takewhile(lambda x: x < s[1], it)
    if kind == 'dropwhile':
        return itertools.dropwhile(lambda x: x < s[1], it)
    if kind == 'chunked':
        return r_chunked(it, s[1], s[2])
    if kind == 'windowed':
        return r_windowed(it, s[1])
    if kind == 'split':
        return r_split(it, s[1], s[2])
    if kind == 'unique':
        return r_unique(it, REFUNIQ[s[1]])
    if kind == 'flatten':
        return itertools.chain.from_iterable(it)
    raise ValueError(s)


def refpipe(src, recipe, stages=None, sentinel=NOSENT):
    it = r_base(src, recipe, sentinel)
    for s in (recipe['stages'] if stages is None else stages):
        it = r_stage(it, s)
    return it


def never(x):
    return False


def big_or_long(x):
    return (len(x) >= 2) if isinstance(x, (list, tuple)) else x >= 5


FIRST_KEYS = {'T': (lambda: T, lambda x: x), 'gt4': (lambda: big_or_long, big_or_long), 'never': (lambda: never, never)}


def run(make_iter, src, terminal, first):
    """returns ('ok', outputs, pulls) | ('diverges',) | ('err', exc)"""
    try:
        if terminal == 'first':
            it = make_iter(src)
            return ('ok', [it], src.pulls)
        it = make_iter(src)
        if terminal == 'all':
            return ('ok', list(it), src.pulls)
        out = []
        for x in it:
            out.append(x)
            if len(out) >= K:
                break
        return ('ok', out, src.pulls)
    except tg.BudgetExceeded:
        return ('diverges',)
    except Exception as e:
        return ('err', e)


def allowance(stages):
    a = 2
    for s in stages:
        if s[0] in ('chunked', 'windowed'):
            a += s[1] + 1
        else:
            a += 1
    return a


def lookahead_diverges(recipe, items, sentinel):
    """does the look-ahead a windowed(n) stage is allowed (n-1 items of ITS input) already need unboundedly many pulls?"""
    for j, s in enumerate(recipe['stages']):
        if s[0] == 'windowed' and s[1] > 1:
            src = Src(list(items), recipe['source']['endless'])
            try:
                list(itertools.islice(refpipe(src, recipe, recipe['stages'][:j], sentinel), s[1] - 1))
            except tg.BudgetExceeded:
                return True
            except Exception:
                return False
    return False


def label_sentinel(recipe, items, sentinel, ctx):
    """which class of sentinel case is this?  Decided on the values of the reference (one pass over the source items)."""
    if sentinel is NOSENT:
        ctx.label('sentinel-none')
        return False
    dom = recipe.get('domain') or 'smallint'
    produced = list(r_base(iter(list(items)), recipe, NOSENT))
    fresh = (recipe['sentinel'][0] == 'eq') if recipe.get('domain') else isinstance(sentinel, float)
    if fresh:
        # the generator promises "equal at most, never the same object": a shared object here would quietly turn the
        # class into the one an identity comparison handles as well
        if any(v is sentinel for v in produced) or any(v is sentinel for v in items):
            raise HarnessBug('C17: the constructed sentinel %r is the same object as a stream value (domain %s)' % (sentinel, dom))
    hit = [i for i, v in enumerate(produced) if v is sentinel or v == sentinel]
    if not hit:
        ctx.label('sentinel-miss', 'sentinel-miss-' + dom)
        return False
    i = hit[0]
    if produced[i] is sentinel:
        ctx.label('sentinel-hit-identical')
        return False
    sub = 'sub' if recipe['subspec'] is not None else 'nosub'
    pos = 'first' if i == 0 else ('last' if i == len(produced) - 1 else 'middle')
    ctx.label('sentinel-hit-equal-only', 'eqhit-' + dom, 'eqhit-' + sub, 'eqhit-%s-%s' % (dom, sub), 'eqhit-at-' + pos)
    if recipe['stages']:
        ctx.label('eqhit-stages-behind')
    if recipe['source']['endless']:
        ctx.label('eqhit-endless')
    return True


def check(recipe, ctx):
    stages = recipe['stages']
    kinds = set(s[0] for s in stages)
    ctx.label('stages-%d' % len(stages), 'endless' if recipe['source']['endless'] else 'finite',
              'terminal-' + recipe['terminal'])
    for s in stages:
        ctx.label('stage-' + s[0])
    ctx.nontrivial(len(kinds) >= 2 or recipe['source']['endless'])
    fkey, fdefault = recipe['first']
    items, sentinel = realize(recipe)
    ctx.nontrivial(label_sentinel(recipe, items, sentinel, ctx))
    spec_iter = build_iter(recipe, None, sentinel)
    if recipe['terminal'] == 'all':
        spec = spec_iter.all()
    elif recipe['terminal'] == 'first':
        spec = spec_iter.first(FIRST_KEYS[fkey][0](), default=fdefault) if (fkey != 'T' or fdefault is not None) \
            else spec_iter.first()
    else:
        spec = spec_iter
    repr0 = repr(spec_iter)

    def ref_make(src):
        it = refpipe(src, recipe, None, sentinel)
        if recipe['terminal'] == 'first':
            key = FIRST_KEYS[fkey][1]
            for x in it:
                if key(x):
                    return x
            return fdefault
        return it

    def glom_make(src):
        return glom.glom(src, spec)

    for rep in range(2):
        rsrc = Src(list(items), recipe['source']['endless'])
        exp = run(ref_make, rsrc, recipe['terminal'], recipe['first'])
        gsrc = Src(list(items), recipe['source']['endless'])
        got = run(glom_make, gsrc, recipe['terminal'], recipe['first'])
        where = 'spec=%r%s source=%r evaluation #%d' % (spec, '' if sentinel is NOSENT else ' [sentinel=%r]' % (sentinel,), rsrc, rep + 1)
        ctx.label('exp-' + exp[0])
        if exp[0] == 'diverges':
            if got[0] == 'ok':
                raise Mismatch('unexpected-termination', '%s: the reference needs more than %d pulls, glom returned %r'
                               % (where, BUDGET, got[1]))
            continue
        if exp[0] == 'err':
            if got[0] != 'err':
                raise Mismatch('missing-error', '%s: the composition raises %r, glom: %r' % (where, exp[1], got))
            continue
        if got[0] == 'diverges' and lookahead_diverges(recipe, items, sentinel):
            # windowed() looks size-1 items ahead (its allowance); here its input never yields that many
            ctx.label('lookahead-diverges')
            continue
        if got[0] == 'diverges':
            raise Mismatch('not-lazy', '%s: expected %r after %d pulls; glom pulled more than %d items'
                           % (where, exp[1], exp[2], BUDGET))
        if got[0] == 'err':
            raise Mismatch('spurious-error', '%s: expected %r, glom raised %s: %r'
                           % (where, exp[1], type(got[1]).__name__, got[1]))
        if got[1] != exp[1] or [type(x) for x in got[1]] != [type(x) for x in exp[1]]:
            raise Mismatch('wrong-output', '%s: expected %r, got %r' % (where, exp[1], got[1]))
        if got[2] > exp[2] + allowance(stages):
            raise Mismatch('not-lazy', '%s: %d outputs need %d source pulls in the reference, glom pulled %d'
                           % (where, len(exp[1]), exp[2], got[2]))
    if repr(spec_iter) != repr0:
        raise Mismatch('spec-mutated', 'evaluating %s changed its repr to %r' % (repr0, repr(spec_iter)))
    ctx.outcome([repr(spec)[:120], exp[0]])


# ---------------------------------------------------------------------------
# builder histories

def gen_builder(draw):
    base, state = gen_stages(draw, 3)
    ext = []
    for _ in range(draw(st.integers(1, 3))):
        s, _st = gen_stage(draw, state)
        ext.append(s)
    return {'source': {'items': [draw(st.integers(0, 7)) for _ in range(draw(st.integers(0, 8)))], 'endless': False},
            'subspec': draw(st.sampled_from([None, None, 'skip_even'])), 'sentinel': 'default',
            'stages': base, 'ext': ext,
            'invoke': [draw(st.sampled_from(['C', 'S', '*', 'Ck', 'Sk'])) for _ in range(draw(st.integers(1, 4)))],
            'invoke_base': draw(st.integers(0, 3))}


def echo(*a, **kw):
    return (a, tuple(sorted(kw.items())))


def invoke_step(inv, op, i):
    if op == 'C':
        return inv.constants(i, 'c%d' % i)
    if op == 'Ck':
        return inv.constants(k='const%d' % i)
    if op == 'S':
        return inv.specs(T['n'])
    if op == 'Sk':
        return inv.specs(k=T['n'], j=Val('j%d' % i))
    return inv.star(args=T['xs'], kwargs=T['kw'])


def ref_invoke(ops, target):
    args, kwargs = [], {}
    for i, op in enumerate(ops):
        if op == 'C':
            args += [i, 'c%d' % i]
        elif op == 'Ck':
            kwargs['k'] = 'const%d' % i
        elif op == 'S':
            args.append(target['n'])
        elif op == 'Sk':
            kwargs['k'] = target['n']
            kwargs['j'] = 'j%d' % i
        else:
            args += list(target['xs'])
            kwargs.update(target['kw'])
    return echo(*args, **kwargs)


def outputs(spec, items):
    try:
        return ('ok', list(glom.glom(list(items), spec)))
    except Exception as e:
        return ('err', type(e).__name__)


def ref_outputs(recipe, stages, items):
    try:
        return ('ok', list(refpipe(iter(list(items)), recipe, stages)))
    except Exception as e:
        return ('err', type(e).__name__)


def check_builder(recipe, ctx):
    items = recipe['source']['items']
    base_stages = recipe['stages']
    if recipe['sentinel'] != 'default':
        raise HarnessBug('C17 builder histories carry no sentinel: %r' % (recipe['sentinel'],))
    base = build_iter(recipe)
    repr0 = repr(base)
    stack0 = list(base._iter_stack) if hasattr(base, '_iter_stack') else None
    out0 = outputs(base, items)
    exp0 = ref_outputs(recipe, base_stages, items)
    ctx.label('base-stages-%d' % len(base_stages), 'derived-%d' % len(recipe['ext']))
    ctx.nontrivial(True)
    if out0[0] != exp0[0] or (out0[0] == 'ok' and out0[1] != exp0[1]):
        raise Mismatch('wrong-output', 'base %s on %r: expected %r, got %r' % (repr0, items, exp0, out0))
    derived = []
    for s in recipe['ext']:
        d = add_stage(base, s)
        if d is base:
            raise Mismatch('builder-returns-self', '%s: chaining %r returned the same object' % (repr0, s))
        derived.append((s, d))
    # siblings: each equals base-stages + its own stage, regardless of the others
    for s, d in derived:
        got = outputs(d, items)
        exp = ref_outputs(recipe, base_stages + [s], items)
        if got[0] != exp[0] or (got[0] == 'ok' and got[1] != exp[1]):
            raise Mismatch('sibling-interference', 'derived %r (base %s + %r) on %r: expected %r, got %r'
                           % (d, repr0, s, items, exp, got))
    # the base is unchanged: repr, stage list, behaviour
    if repr(base) != repr0:
        raise Mismatch('base-mutated', 'base repr changed from %s to %s after deriving %r' % (repr0, repr(base), recipe['ext']))
    if stack0 is not None and list(base._iter_stack) != stack0:
        raise Mismatch('base-mutated', 'base stage list changed after deriving from %s' % repr0)
    out1 = outputs(base, items)
    if out1 != out0:
        raise Mismatch('base-mutated', 'base %s now yields %r, before deriving it yielded %r' % (repr0, out1, out0))
    # ---- Invoke
    ops = recipe['invoke']
    nb = min(recipe['invoke_base'], len(ops))
    target = {'n': 5, 'xs': [7, 8], 'kw': {'k': 'star', 'z': 1}}
    inv = Invoke(echo)
    for i, op in enumerate(ops[:nb]):
        inv = invoke_step(inv, op, i)
    inv_repr0 = repr(inv)
    inv_out0 = glom.glom(target, inv)
    if inv_out0 != ref_invoke(ops[:nb], target):
        raise Mismatch('invoke-wrong', '%s on %r: expected %r, got %r' % (inv_repr0, target, ref_invoke(ops[:nb], target), inv_out0))
    cur = inv
    for i, op in enumerate(ops[nb:], start=nb):
        nxt = invoke_step(cur, op, i)
        got = glom.glom(target, nxt)
        exp = ref_invoke(ops[:i + 1], target)
        if got != exp:
            raise Mismatch('invoke-wrong', '%r on %r: expected %r, got %r' % (nxt, target, exp, got))
        cur = nxt
    # a second branch from the same prefix
    for i, op in enumerate(['Sk', 'Ck', 'S'], start=90):
        side = invoke_step(inv, op, i)
        glom.glom(target, side)
    if repr(inv) != inv_repr0:
        raise Mismatch('invoke-base-mutated', 'prefix repr changed from %s to %s' % (inv_repr0, repr(inv)))
    if glom.glom(target, inv) != inv_out0:
        raise Mismatch('invoke-base-mutated', 'prefix %s now yields %r, before extending it yielded %r'
                       % (inv_repr0, glom.glom(target, inv), inv_out0))
    ctx.outcome([repr0[:80], [repr(d)[:60] for _, d in derived], inv_repr0[:80]])


# ---------------------------------------------------------------------------
# a stage function that raises for one item: map() / filter() objects carry on with the next item when the consumer
# catches the error and keeps pulling - so does the pipeline

class Boom(object):
    def __init__(self, k, as_filter):
        self.k, self.as_filter = k, as_filter
        self.__name__ = 'boom%d' % k

    def __call__(self, x):
        if x == self.k:
            raise ValueError('boom at %d' % x)
        return (x % 2 == 0) if self.as_filter else x * 10

    def __repr__(self):
        return self.__name__


def gen_resume(draw):
    items = [draw(st.integers(0, 6)) for _ in range(draw(st.integers(2, 8)))]
    return {'items': items, 'k': draw(st.sampled_from(items)), 'stage': draw(st.sampled_from(['map', 'filter'])),
            'pre': draw(st.booleans()), 'post': draw(st.sampled_from([None, 'map', 'limit']))}


def check_resume(recipe, ctx):
    items, k = recipe['items'], recipe['k']
    boom = Boom(k + (1 if recipe['pre'] else 0), recipe['stage'] == 'filter')
    spec = Iter()
    ref = iter(list(items))
    if recipe['pre']:
        spec = spec.map(T + 1)
        ref = map(lambda x: x + 1, ref)
    if recipe['stage'] == 'map':
        spec = spec.map(boom)
        ref = map(boom, ref)
    else:
        # (Iter.filter(f) keeps the items for which f is truthy; an error inside f is an error of that item)
        spec = spec.filter(boom)
        ref = filter(boom, ref)
    if recipe['post'] == 'map':
        spec = spec.map(T + 1)
        ref = map(lambda x: x + 1, ref)
    elif recipe['post'] == 'limit':
        spec = spec.limit(len(items))
        ref = itertools.islice(ref, len(items))

    def drain(it):
        out = []
        for _ in range(len(items) + 3):
            try:
                out.append(('v', next(it)))
            except StopIteration:
                out.append(('end',))
                break
            except ValueError:
                out.append(('error',))
        return out
    exp = drain(ref)
    got_it = glom.glom(list(items), spec)
    try:
        got = drain(got_it)
    except Exception as e:
        raise Mismatch('resume-after-error', 'spec=%r items=%r: %s: %s' % (spec, items, type(e).__name__, e))
    ctx.label('stage-' + recipe['stage'])
    ctx.nontrivial(('error',) in exp and exp.index(('error',)) < len(exp) - 2)
    if got != exp:
        raise Mismatch('resume-after-error', 'spec=%r items=%r, the consumer catches the ValueError and keeps pulling: the composition '
                       'of map/filter yields %r, the pipeline %r' % (spec, items, exp, got))
    ctx.outcome([repr(spec), items])


SUBS = [
    Sub('resume', check_resume, gen=gen_resume, quick=400, thorough=2000),
    Sub('pipeline', check, gen=gen, quick=5000, thorough=20000,
        floors={'endless': 0.12, 'exp-ok': 0.5, 'stage-windowed': 0.03, 'stage-split': 0.03, 'stage-unique': 0.03,
                'terminal-first': 0.08, 'terminal-all': 0.08,
                # sentinel 4.0 against the int 4 (equal, another object), with the int stages behind / the sub-spec T + 1 in front
                'sentinel-hit-equal-only': 0.015, 'eqhit-stages-behind': 0.012, 'eqhit-smallint-sub': 0.003,
                'sentinel-hit-identical': 0.014, 'sentinel-miss': 0.15}),
    Sub('builder', check_builder, gen=gen_builder, quick=1500, thorough=6000),
    Sub('sentinel', check, gen=gen_sentinel, quick=1500, thorough=6000,
        floors=dict([('sentinel-hit-equal-only', 0.25), ('sentinel-hit-identical', 0.022), ('sentinel-miss', 0.12), ('sentinel-none', 0.06),
                     ('eqhit-sub', 0.11), ('eqhit-nosub', 0.13), ('eqhit-at-first', 0.14), ('eqhit-at-middle', 0.07),
                     ('eqhit-at-last', 0.035), ('eqhit-stages-behind', 0.16), ('eqhit-endless', 0.085),
                     ('eqhit-str', 0.04), ('eqhit-bigint', 0.045), ('eqhit-float', 0.06), ('eqhit-intfloat', 0.04), ('eqhit-tuple', 0.04)]
                    + [('eqhit-%s-%s' % (d, w), 0.014) for d in sorted(DOMAINS) for w in ('sub', 'nosub')])),
]
