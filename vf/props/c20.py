"""C20 — Concurrent and re-entrant glom calls behave exactly as when run alone.

Sub-checks
  schedules   EXHAUSTIVE for the pool below: every interleaving (at the granularity of user-callable
              invocations inside specs) of every pair of pool evaluations (<= 4 yield points each) and of
              every triple (evaluations cut to 2 yield points); each evaluation runs in its own thread, a
              baton-passing scheduler lets exactly one run at a time, so a schedule is a word over the ids
  free        free-running threads looping over pool entries under sys.setswitchinterval(1e-6)
  reentrant   probes that call glom() / Glommer.glom() / Spec.glom() recursively to depth <= 3 on other pool
              entries, including inner failures caught by an outer Coalesce / default=

Oracle: each evaluation's outcome - value, or error class AND full trace text - must equal the outcome of the
same evaluation run alone (address-free reprs make the text comparable).
"""
import re
import sys
import threading
import itertools

from hypothesis import strategies as st

import glom
from glom import (T, S, A, Val, Fill, Match, Coalesce, Spec, Vars, Call, And, Or, M, Switch, Pipe, Glommer, GlomError,
                  Sum, Auto, Iter)
from glom.core import TargetRegistry
from glom.grouping import Group, First, Max

from ..runner import Sub, Mismatch, HarnessBug

PROPERTY = 'C20'
RULE = ('pool of 23 evaluations covering scope bindings, Vars/globals, modes, Group accumulators, argument-mode containers, '
        'shared spec objects, a shared scope= mapping and a shared Glommer, successful and failing (error trace text compared); '
        'all pairs x all interleavings and all triples x all interleavings (2 yield points each) are enumerated. '
        'Non-trivial = a schedule with >= 2 context switches, or a nesting of depth >= 2.')
ASSUMPTIONS = [
    'the scheduler owns the schedule at user-callable granularity only; pre-emption inside glom bytecode is sampled by the free-running sub-check',
    'the isolated outcome of every pool evaluation is deterministic (checked: two isolated runs must agree)',
]
ADDR = re.compile(r' at 0x[0-9a-f]+')

# ---------------------------------------------------------------------------
# scheduler


class Sched(object):
    def __init__(self, word):
        self.word = list(word)
        self.pos = 0
        self.cv = threading.Condition()
        self.done = set()
        self.trace = []
        self.stalled = False

    def _turn(self):
        while self.pos < len(self.word) and self.word[self.pos] in self.done:
            self.pos += 1
        return self.word[self.pos] if self.pos < len(self.word) else None

    def wait_turn(self, me):
        with self.cv:
            waited = 0
            while True:
                t = self._turn()
                if t is None or t == me:
                    return
                self.cv.wait(0.5)
                waited += 1
                if waited > 40:
                    self.stalled = True
                    return

    def yield_point(self, me):
        with self.cv:
            self.trace.append(me)
            if self.pos < len(self.word) and self.word[self.pos] == me:
                self.pos += 1
            self.cv.notify_all()
        self.wait_turn(me)

    def finish(self, me):
        with self.cv:
            self.done.add(me)
            self.cv.notify_all()


class Ctl(object):
    """per-run control block shared by the yield probes of one pool instance"""
    def __init__(self):
        self.sched = None
        self.local = threading.local()
        self.limit = {}           # id -> max number of scheduled yields (None = all)

    def point(self):
        hook = getattr(self.local, 'reenter', None)
        if hook is not None:
            self.local.reenter = None          # once per outer evaluation
            hook()
        me = getattr(self.local, 'me', None)
        if self.sched is None or me is None:
            return
        n = getattr(self.local, 'count', 0)
        lim = self.limit.get(me)
        if lim is not None and n >= lim:
            return
        self.local.count = n + 1
        self.sched.yield_point(me)


class Y(object):
    """yield-point probe: returns its argument (or a scripted value)"""
    def __init__(self, ctl, name, ret=None, fail=False):
        self.ctl, self.name, self.ret, self.fail = ctl, name, ret, fail
        self.__name__ = name

    def __call__(self, t):
        self.ctl.point()
        if self.fail:
            raise GlomError('probe %s refuses' % self.name)
        return t if self.ret is None else self.ret(t)

    def __repr__(self):
        return 'Y(%s)' % self.name


def echo(*a, **kw):
    return ['echo', list(a), sorted(kw.items())]


# two distinct exception classes with the same __name__ (two libraries' "Timeout")
NetTimeout = type('Timeout', (Exception,), {'__module__': 'net'})
DbTimeout = type('Timeout', (LookupError,), {'__module__': 'db'})
EXPECT_CLASS = {'raise-net-timeout': NetTimeout, 'raise-db-timeout': DbTimeout}


class Raiser(object):
    def __init__(self, ctl, name, cls):
        self.ctl, self.name, self.cls = ctl, name, cls
        self.__name__ = name

    def __call__(self, t):
        self.ctl.point()
        raise self.cls('%s timed out' % self.name)

    def __repr__(self):
        return 'Raiser(%s)' % self.name


class HandlerProbe(object):
    """custom specifier type in the style of docs/custom_spec_types.rst: iterates over the target if its type has an
    'iterate' handler and wraps it in a list otherwise; it asks the registry in the documented raise_exc=False form
    ("or False if raise_exc=False")"""
    def glomit(self, target, scope):
        iterate = scope[TargetRegistry].get_handler('iterate', target, raise_exc=False)
        return list(iterate(target)) if iterate else [target]

    def __repr__(self):
        return 'HandlerProbe()'


POOL_SIZE = 23


def make_pool():
    """fresh pool: list of (name, target factory, spec, how) ; several entries share spec objects on purpose"""
    ctl = Ctl()
    y = lambda name, **kw: Y(ctl, name, **kw)
    shared_scope = {'helper': 'shared-helper-value'}
    glommer = Glommer()
    argspec = Call(echo, args=([T['a'], Spec(y('arg1')), Spec(y('arg2'))],), kwargs={'k': {'d': Spec(y('kw1'))}})
    vars_spec = (S(v=Vars()), [(y('v1'), A.v.last)], S.v.last)
    group_spec = Group({y('gk', ret=lambda t: t % 2): [y('gv')]})
    spec_obj = Spec((y('sg1'), {'tmp': Coalesce(S.tmp, default='unset'), 's': 's'}))
    # a class of this pool only (not iterable): what another pool's evaluations left in the registry memo cannot reach it
    fresh = type('Fresh', (object,), {'__slots__': (), '__repr__': lambda self: 'Fresh()'})
    pool = [
        ('bind-zero', lambda: {'a': {'b': 1}}, (S(k=Val('zero')), y('a1'), 'a', y('a2'), {'v': 'b', 'k': S.k}), 'glom'),
        ('fill-error', lambda: {'a': [1, 2, 3]}, (Fill(T), y('b1'), 'a', [y('b2')], S(k=Val('one')), y('b3'), 'nope'), 'glom'),
        ('group', lambda: [1, 2, 3, 4], group_spec, 'glom'),
        ('group-same-spec', lambda: [5, 7], group_spec, 'glom'),
        ('match', lambda: {'x': 1, 'y': 'no'}, Match({str: Or(And(y('m1'), int), And(y('m2'), M == 'zz'))}), 'glom'),
        ('coalesce-error', lambda: {'p': 1}, Coalesce((y('c1'), 'nope'), (y('c2'), T['zz']), (y('c3', fail=True),)), 'glom'),
        ('vars', lambda: [1, 2, 3], vars_spec, 'glom'),
        ('vars-same-spec', lambda: [7, 8], vars_spec, 'glom'),
        ('argmode', lambda: {'a': 'first'}, argspec, 'glom'),
        ('argmode-same-spec', lambda: {'a': 'second'}, argspec, 'glom'),
        ('shared-scope', lambda: {'q': 1}, (A.globals.owner, y('s1'), {'who': S.globals.owner, 'h': S.helper, 'q': 'q'}, y('s2')),
         ('scope', shared_scope)),
        ('shared-scope-error', lambda: {'inner-target': 1}, (A.globals.owner, y('t1'), 'missing.deeper'), ('scope', shared_scope)),
        ('glommer', lambda: {'g': [1, 2]}, (y('g1'), 'g', [y('g2')], Sum()), ('glommer', glommer)),
        ('glommer-error', lambda: {'g': 5}, (y('h1'), 'g', Coalesce([y('h2')], Match(str))), ('glommer', glommer)),
        ('raise-net-timeout', lambda: {'r': 1}, (y('n1'), {'x': Raiser(ctl, 'net', NetTimeout)}), 'glom'),
        ('raise-db-timeout', lambda: {'r': 2}, (y('d1'), {'x': Raiser(ctl, 'db', DbTimeout)}), 'glom'),
        # ONE Spec object evaluated through its .glom() method, once with a per-call scope and once without
        ('specglom-bound', lambda: {'s': 1}, spec_obj, ('specglom', {'tmp': 'bound-by-this-call'})),
        ('specglom-plain', lambda: {'s': 2}, spec_obj, ('specglom', {})),
        # the same operation failing on the same type of value at two different places
        ('unregistered-deep', lambda: {'a': {'x': 5}}, ('a', y('u1'), 'x', [T]), 'glom'),
        ('unregistered-shallow', lambda: {'b': 7}, (y('u2'), 'b', [T]), 'glom'),
        # (appended: indexes of the entries above are recorded in replay files)
        # a custom spec asks the registry whether the type can be iterated (raise_exc=False); two evaluations that need
        # that handler for a value of the same type: one fails with UnregisteredTarget, one recovers through a default
        ('probe-handler', lambda: {'v': fresh()}, (y('p1'), 'v', HandlerProbe(), y('p2')), 'glom'),
        ('unregistered-fresh', lambda: {'v': fresh()}, (y('f1'), 'v', y('f2'), [T]), 'glom'),
        ('unregistered-fresh-default', lambda: {'v': fresh()}, (y('e1'), 'v', y('e2'), Coalesce(Sum(), default='n/a')), 'glom'),
    ]
    return ctl, pool


def evaluate(entry):
    name, tfac, spec, how = entry
    try:
        if how == 'glom':
            r = glom.glom(tfac(), spec)
        elif how[0] == 'scope':
            r = glom.glom(tfac(), spec, scope=how[1])
        elif how[0] == 'specglom':
            r = spec.glom(tfac(), scope=dict(how[1]))
        else:
            r = how[1].glom(tfac(), spec)
        return ('ok', ADDR.sub('', repr(r)))
    except Exception as e:
        try:
            text = str(e)
        except Exception as e2:
            text = '<str failed: %r>' % (e2,)
        want = EXPECT_CLASS.get(name)
        if want is not None and not isinstance(e, want):
            raise Mismatch('class-lost', 'evaluation %s raised %r (mro %s), which is not an instance of the class that was raised (%s.%s)'
                           % (name, e, [c.__module__ + '.' + c.__name__ for c in type(e).__mro__[:4]], want.__module__, want.__name__))
        return ('err', type(e).__name__, ADDR.sub('', text))


_ISO = {}


def isolated():
    """outcome and yield count of every pool entry run alone (cached per process)"""
    if _ISO:
        return _ISO
    iso_local = {}
    for rnd in range(2):
        for i in range(POOL_SIZE):
            ctl, pool = make_pool()         # a fresh pool per entry: "alone" means no other evaluation came before
            entry = pool[i]
            counter = Sched([])
            ctl.sched = counter
            ctl.local.me = i
            ctl.local.count = 0
            out = evaluate(entry)
            n = len(counter.trace)
            ctl.sched = None
            if rnd == 0:
                iso_local[i] = (out, n)
            elif iso_local[i] != (out, n):
                raise HarnessBug('pool entry %s is not deterministic in isolation: %r vs %r' % (entry[0], iso_local[i], (out, n)))
    # what an entry reports when run alone is known by construction for some entries: a baseline that already deviates
    # (state carried over from an EARLIER, unrelated evaluation in this process) is a violation by itself
    for i, entry in enumerate(make_pool()[1]):
        want = EXPECT_TEXT.get(entry[0])
        if want is not None and want not in iso_local[i][0][-1]:
            _BASELINE_BAD.append(Mismatch('foreign-state', 'evaluation %s run alone must report %r; it reports %r (state left behind by an '
                                          'earlier evaluation of another entry)' % (entry[0], want, iso_local[i][0][-1][-200:])))
    _ISO.update(iso_local)
    return _ISO


_BASELINE_BAD = []
EXPECT_TEXT = {'unregistered-deep': "(at ['a', 'u1', 'x'])", 'unregistered-shallow': "(at ['u2', 'b'])",
               'specglom-plain': "'tmp': 'unset'", 'specglom-bound': "'tmp': 'bound-by-this-call'",
               'unregistered-fresh': "UnregisteredTarget: target type 'Fresh' not registered for 'iterate'",
               'unregistered-fresh-default': "'n/a'", 'probe-handler': '[Fresh()]'}


def assert_baseline():
    isolated()
    if _BASELINE_BAD:
        raise _BASELINE_BAD[0]


def run_schedule(ids, word, limits):
    ctl, pool = make_pool()
    sch = Sched(word)
    ctl.sched = sch
    ctl.limit = dict(limits)
    res = {}

    def run(i):
        ctl.local.me = i
        ctl.local.count = 0
        sch.wait_turn(i)
        try:
            res[i] = evaluate(pool[i])
        finally:
            sch.finish(i)
    ths = [threading.Thread(target=run, args=(i,)) for i in ids]
    for t in ths:
        t.start()
    for t in ths:
        t.join(30)
    if sch.stalled or any(t.is_alive() for t in ths):
        raise HarnessBug('schedule %r over %r stalled' % (word, ids))
    return res, sch.trace


def enum_schedules(tier):
    iso = isolated()
    n = len(iso)
    for i, j in itertools.combinations(range(n), 2):
        ni, nj = min(iso[i][1], 4), min(iso[j][1], 4)
        for w in sorted(set(itertools.permutations([i] * ni + [j] * nj))):
            yield {'ids': [i, j], 'word': list(w), 'limits': [[i, ni], [j, nj]]}
    triples = list(itertools.combinations(range(n), 3))
    if tier == 'quick':
        triples = triples[::7]
    for tr in triples:
        lim = [[i, min(iso[i][1], 2)] for i in tr]
        letters = []
        for i, k in lim:
            letters += [i] * k
        for w in sorted(set(itertools.permutations(letters))):
            yield {'ids': list(tr), 'word': list(w), 'limits': lim}


def switches(word):
    return sum(1 for a, b in zip(word, word[1:]) if a != b)


def check_schedule(recipe, ctx):
    assert_baseline()
    iso = isolated()
    ids, word = recipe['ids'], recipe['word']
    res, trace = run_schedule(ids, word, recipe['limits'])
    ctx.label('evals-%d' % len(ids))
    ctx.nontrivial(switches(word) >= 2)
    _, pool = make_pool()
    for i in ids:
        if res.get(i) != iso[i][0]:
            raise Mismatch('interference', 'schedule %r: evaluation %s gives %r when interleaved with %s, but %r alone'
                           % (word, pool[i][0], res.get(i), [pool[j][0] for j in ids if j != i], iso[i][0]))
    ctx.outcome([[pool[i][0] for i in ids], word])


# ---------------------------------------------------------------------------
# free-running threads

def gen_free(draw):
    n = POOL_SIZE
    return {'assign': [draw(st.lists(st.integers(0, n - 1), min_size=2, max_size=4)) for _ in range(8)],
            'iterations': draw(st.sampled_from([20, 40]))}


def check_free(recipe, ctx):
    assert_baseline()
    iso = isolated()
    ctl, pool = make_pool()
    ctx.nontrivial(True)
    bad = []
    old = sys.getswitchinterval()
    sys.setswitchinterval(1e-6)
    try:
        def run(entries):
            for _ in range(recipe['iterations']):
                for i in entries:
                    out = evaluate(pool[i % len(pool)])
                    if out != iso[i % len(pool)][0]:
                        bad.append((pool[i % len(pool)][0], out, iso[i % len(pool)][0]))
                        return
        ths = [threading.Thread(target=run, args=(a,)) for a in recipe['assign']]
        for t in ths:
            t.start()
        for t in ths:
            t.join(120)
    finally:
        sys.setswitchinterval(old)
    if bad:
        raise Mismatch('interference-free-running', 'evaluation %s gave %r under 8 free-running threads, but %r alone' % bad[0])
    ctx.outcome(recipe['assign'])


# ---------------------------------------------------------------------------
# re-entrancy

def gen_reentrant(draw):
    n = POOL_SIZE
    def node(d):
        return {'entry': draw(st.integers(0, n - 1)),
                'via': draw(st.sampled_from(['glom', 'spec', 'glommer'])),
                'catch': draw(st.sampled_from(['none', 'coalesce', 'default'])),
                'inner': node(d - 1) if d > 0 and draw(st.booleans()) else None}
    return {'outer': draw(st.integers(0, n - 1)), 'nest': node(draw(st.sampled_from([0, 1, 2])))}


def check_reentrant(recipe, ctx):
    """re-entrancy is injected through the yield probes the pool specs already contain, so every spec object
    is exactly the one that is evaluated alone: outcomes (incl. trace text) must be identical"""
    assert_baseline()
    iso = isolated()
    ctl, pool = make_pool()
    observed = []
    n = len(pool)

    def run_level(nest, depth):
        entry_i = nest['entry'] % n
        entry = pool[entry_i]
        inner = nest['inner']

        def body():
            if inner is not None:
                ctl.local.reenter = lambda: run_level(inner, depth + 1)
            out = evaluate(entry)
            ctl.local.reenter = None
            return out

        catch = nest['catch']
        if catch == 'none':
            out = body()
        elif catch == 'coalesce':
            # the nested evaluation happens inside a callable of a wrapper glom call whose failure an
            # outer Coalesce catches
            box = []

            def failing(t):
                box.append(body())
                return glom.glom(t, T['definitely']['missing'])
            via = nest['via']
            wspec = Coalesce((failing, T), Val('caught'))
            if via == 'glom':
                w = glom.glom({'w': 1}, wspec)
            elif via == 'spec':
                w = Spec(wspec).glom({'w': 1})
            else:
                w = Glommer().glom({'w': 1}, wspec)
            if w != 'caught':
                raise Mismatch('reentrant-wrapper', 'outer Coalesce did not catch the inner failure: %r' % (w,))
            out = box[0]
        else:
            box = []

            def defaulted(t):
                box.append(body())
                return glom.glom(t, T['definitely']['missing'], default='dflt')
            w = glom.glom({'w': 1}, (defaulted,))
            if w != 'dflt':
                raise Mismatch('reentrant-wrapper', 'default= of the inner call not honoured: %r' % (w,))
            out = box[0]
        observed.append((depth, entry[0], out, iso[entry_i][0]))

    top = {'entry': recipe['outer'], 'via': 'glom', 'catch': 'none', 'inner': recipe['nest']}
    run_level(top, 0)
    # an inner error that travels out through an enclosing glom() call and is kept by the caller must still render
    # its own trace after the enclosing calls have finished
    kept = []
    inner_i = recipe['nest']['entry'] % n
    if iso[inner_i][0][0] == 'err':
        name_i, tfac_i, spec_i, how_i = pool[inner_i]

        def inner_call(t):
            try:
                if how_i == 'glom':
                    return glom.glom(tfac_i(), spec_i)
                if how_i[0] == 'scope':
                    return glom.glom(tfac_i(), spec_i, scope=how_i[1])
                if how_i[0] == 'specglom':
                    return spec_i.glom(tfac_i(), scope=dict(how_i[1]))
                return how_i[1].glom(tfac_i(), spec_i)
            except Exception as e:
                kept.append((e, ADDR.sub('', str(e))))
                raise

        def mid(t):
            return glom.glom(t, (inner_call,))
        try:
            w = glom.glom({'w': 1}, Coalesce((mid,), Val('caught')))
        except Exception as e:
            w = ('raised', type(e).__name__)
        if isinstance(kept[0][0], GlomError) and w != 'caught':
            raise Mismatch('reentrant-wrapper', 'outer Coalesce did not catch the inner GlomError: %r' % (w,))
        for e, text in kept:
            later = ADDR.sub('', str(e))
            if later != text:
                raise Mismatch('inner-error-rewritten', 'the error of evaluation %s, kept by its caller, renders differently after the '
                               'enclosing glom() calls finished:\n--- at catch time\n%s\n--- later\n%s' % (name_i, text, later))
            if text != iso[inner_i][0][2]:
                raise Mismatch('reentrant', 'evaluation %s nested at depth 3 gives trace\n%s\nbut alone\n%s' % (name_i, text, iso[inner_i][0][2]))
        # reading the text of the inner error (logging it) before re-raising is a pure observation: the error that
        # then leaves the ENCLOSING call must carry that call's own trace either way
        texts = []
        for look in (False, True):
            def inner_call2(t, look=look):
                try:
                    if how_i == 'glom':
                        return glom.glom(tfac_i(), spec_i)
                    if how_i[0] == 'scope':
                        return glom.glom(tfac_i(), spec_i, scope=how_i[1])
                    if how_i[0] == 'specglom':
                        return spec_i.glom(tfac_i(), scope=dict(how_i[1]))
                    return how_i[1].glom(tfac_i(), spec_i)
                except Exception as e:
                    if look:
                        str(e)
                    raise
            inner_call2.__name__ = 'inner_call2'
            try:
                glom.glom({'w': 1}, (inner_call2,))
                texts.append('no error')
            except Exception as e2:
                texts.append(re.sub(r'inner_call2 at 0x[0-9a-f]+', 'inner_call2', ADDR.sub('', str(e2))))
        if texts[0] != texts[1]:
            raise Mismatch('enclosing-trace-lost', 'evaluation %s fails inside a callable of an enclosing glom() call; the message of '
                           'the error leaving the enclosing call depends on whether the callable read str() of the inner error before '
                           're-raising:\n--- not read\n%s\n--- read\n%s' % (name_i, texts[0], texts[1]))
        if isinstance(kept[0][0], GlomError) and "Target: {'w': 1}" not in texts[0].split('\n')[2:3][0:1].__repr__():
            raise Mismatch('enclosing-trace-lost', 'the trace of the enclosing call does not begin with its root target:\n%s' % texts[0])
        ctx.label('kept-inner-error')
    depth_max = max(d for d, _, _, _ in observed)
    ctx.label('depth-%d' % depth_max, 'catch-' + recipe['nest']['catch'])
    ctx.nontrivial(depth_max >= 2)
    for depth, nm, out, alone in observed:
        if out != alone:
            raise Mismatch('reentrant', 'evaluation %s at nesting depth %d (of %d) gives %r, but %r alone'
                           % (nm, depth, depth_max, out, alone))
    ctx.outcome([[o[1] for o in observed], depth_max])


SUBS = [
    Sub('schedules', check_schedule, enum=enum_schedules),
    Sub('free', check_free, gen=gen_free, quick=8, thorough=64, shards=8),
    Sub('reentrant', check_reentrant, gen=gen_reentrant, quick=1200, thorough=5000),
]
