"""C20 — Concurrent and re-entrant glom calls behave exactly as when run alone.

Sub-checks
  schedules   EXHAUSTIVE for the pool below: every interleaving (at the granularity of user-callable
              invocations inside specs) of every pair of pool evaluations (<= 4 yield points each) and of
              every triple (evaluations cut to 2 yield points); each evaluation runs in its own thread, a
              baton-passing scheduler lets exactly one run at a time, so a schedule is a word over the ids
  free        free-running threads looping over pool entries under sys.setswitchinterval(1e-6)
  reentrant   probes that call glom() / Glommer.glom() / Spec.glom() recursively to depth <= 3 on other pool
              entries, including inner failures caught by an outer Coalesce / default=
  escape      an error raised at the bottom of a nest of 2-3 glom() calls (glom / Spec.glom / Glommer.glom, level i+1
              calling level i from a callable) leaves every level: what leaves level i - class, args, target-spec trace -
              must be what level i produces alone (its callable raising the same error itself); by construction the trace
              begins with the target and spec of THAT call.  Error classes glom can re-create from their args and
              classes it cannot (keyword-only / arity-changing / args-transforming constructor, __copy__ that raises or
              yields another class, frozen instances, non-GlomErrors of both sorts); the callables on the way read str(e),
              only e.args, or nothing
  registering ENUMERATED: evaluation A registers a handler for a type from one of its callables and then uses it;
              evaluation B looks the same type up, in a second thread under every interleaving of their yield points
              (one of A's is INSIDE register(): the support-detection function of an extension operation, or the
              __subclasscheck__ of the metaclass of the type), or re-entrantly from that callable.  A must report what it
              reports alone (the registered handler); B what it reports alone before / after the registration
  lookuprace  ENUMERATED mirror image: the yield point is inside B's handler lookup (the __instancecheck__ of the metaclass
              of an unrelated registered type) and A registers meanwhile

Oracle: each evaluation's outcome - value, or error class AND full trace text - must equal the outcome of the
same evaluation run alone (address-free reprs make the text comparable).
"""
import re
import sys
import threading
import itertools

from hypothesis import strategies as st

import glom
from glom import (T, S, A, Val, Fill, Match, Coalesce, Spec, Vars, Call, And, Or, M, Switch, Pipe, Glommer, GlomError,
                  Sum, Auto, Iter)
from glom.core import TargetRegistry
from glom.grouping import Group, First, Max

from ..runner import Sub, Mismatch, HarnessBug

PROPERTY = 'C20'
RULE = ('pool of 23 evaluations covering scope bindings, Vars/globals, modes, Group accumulators, argument-mode containers, '
        'shared spec objects, a shared scope= mapping and a shared Glommer, successful and failing (error trace text compared); '
        'all pairs x all interleavings and all triples x all interleavings (2 yield points each) are enumerated. '
        'Non-trivial = a schedule with >= 2 context switches, or a nesting of depth >= 2. '
        'escape: nests of 2-3 calls whose bottom raises one of 9 error classes (5 of them GlomErrors that copy.copy cannot rebuild); '
        'registering / lookuprace: registry x operation x yield point x target type x earlier registration x all interleavings, enumerated.')
ASSUMPTIONS = [
    'the scheduler owns the schedule at user-callable granularity only; pre-emption inside glom bytecode is sampled by the free-running sub-check',
    'the isolated outcome of every pool evaluation is deterministic (checked: two isolated runs must agree)',
]
ADDR = re.compile(r' at 0x[0-9a-f]+')

# ---------------------------------------------------------------------------
# scheduler


class Sched(object):
    def __init__(self, word):
        self.word = list(word)
        self.pos = 0
        self.cv = threading.Condition()
        self.done = set()
        self.trace = []
        self.stalled = False

    def _turn(self):
        while self.pos < len(self.word) and self.word[self.pos] in self.done:
            self.pos += 1
        return self.word[self.pos] if self.pos < len(self.word) else None

    def wait_turn(self, me):
        with self.cv:
            waited = 0
            while True:
                t = self._turn()
                if t is None or t == me:
                    return
                self.cv.wait(0.5)
                waited += 1
                if waited > 40:
                    self.stalled = True
                    return

    def yield_point(self, me):
        with self.cv:
            self.trace.append(me)
            if self.pos < len(self.word) and self.word[self.pos] == me:
                self.pos += 1
            self.cv.notify_all()
        self.wait_turn(me)

    def finish(self, me):
        with self.cv:
            self.done.add(me)
            self.cv.notify_all()


class Ctl(object):
    """per-run control block shared by the yield probes of one pool instance"""
    def __init__(self):
        self.sched = None
        self.local = threading.local()
        self.limit = {}           # id -> max number of scheduled yields (None = all)

    def point(self):
        hook = getattr(self.local, 'reenter', None)
        if hook is not None:
            self.local.reenter = None          # once per outer evaluation
            hook()
        me = getattr(self.local, 'me', None)
        if self.sched is None or me is None:
            return
        n = getattr(self.local, 'count', 0)
        lim = self.limit.get(me)
        if lim is not None and n >= lim:
            return
        self.local.count = n + 1
        self.sched.yield_point(me)


class Y(object):
    """yield-point probe: returns its argument (or a scripted value)"""
    def __init__(self, ctl, name, ret=None, fail=False):
        self.ctl, self.name, self.ret, self.fail = ctl, name, ret, fail
        self.__name__ = name

    def __call__(self, t):
        self.ctl.point()
        if self.fail:
            raise GlomError('probe %s refuses' % self.name)
        return t if self.ret is None else self.ret(t)

    def __repr__(self):
        return 'Y(%s)' % self.name


def echo(*a, **kw):
    return ['echo', list(a), sorted(kw.items())]


# two distinct exception classes with the same __name__ (two libraries' "Timeout")
NetTimeout = type('Timeout', (Exception,), {'__module__': 'net'})
DbTimeout = type('Timeout', (LookupError,), {'__module__': 'db'})
EXPECT_CLASS = {'raise-net-timeout': NetTimeout, 'raise-db-timeout': DbTimeout}


class Raiser(object):
    def __init__(self, ctl, name, cls):
        self.ctl, self.name, self.cls = ctl, name, cls
        self.__name__ = name

    def __call__(self, t):
        self.ctl.point()
        raise self.cls('%s timed out' % self.name)

    def __repr__(self):
        return 'Raiser(%s)' % self.name


class HandlerProbe(object):
    """custom specifier type in the style of docs/custom_spec_types.rst: iterates over the target if its type has an
    'iterate' handler and wraps it in a list otherwise; it asks the registry in the documented raise_exc=False form
    ("or False if raise_exc=False")"""
    def glomit(self, target, scope):
        iterate = scope[TargetRegistry].get_handler('iterate', target, raise_exc=False)
        return list(iterate(target)) if iterate else [target]

    def __repr__(self):
        return 'HandlerProbe()'


POOL_SIZE = 23


def make_pool():
    """fresh pool: list of (name, target factory, spec, how) ; several entries share spec objects on purpose"""
    ctl = Ctl()
    y = lambda name, **kw: Y(ctl, name, **kw)
    shared_scope = {'helper': 'shared-helper-value'}
    glommer = Glommer()
    argspec = Call(echo, args=([T['a'], Spec(y('arg1')), Spec(y('arg2'))],), kwargs={'k': {'d': Spec(y('kw1'))}})
    vars_spec = (S(v=Vars()), [(y('v1'), A.v.last)], S.v.last)
    group_spec = Group({y('gk', ret=lambda t: t % 2): [y('gv')]})
    spec_obj = Spec((y('sg1'), {'tmp': Coalesce(S.tmp, default='unset'), 's': 's'}))
    # a class of this pool only (not iterable): what another pool's evaluations left in the registry memo cannot reach it
    fresh = type('Fresh', (object,), {'__slots__': (), '__repr__': lambda self: 'Fresh()'})
    pool = [
        ('bind-zero', lambda: {'a': {'b': 1}}, (S(k=Val('zero')), y('a1'), 'a', y('a2'), {'v': 'b', 'k': S.k}), 'glom'),
        ('fill-error', lambda: {'a': [1, 2, 3]}, (Fill(T), y('b1'), 'a', [y('b2')], S(k=Val('one')), y('b3'), 'nope'), 'glom'),
        ('group', lambda: [1, 2, 3, 4], group_spec, 'glom'),
        ('group-same-spec', lambda: [5, 7], group_spec, 'glom'),
        ('match', lambda: {'x': 1, 'y': 'no'}, Match({str: Or(And(y('m1'), int), And(y('m2'), M == 'zz'))}), 'glom'),
        ('coalesce-error', lambda: {'p': 1}, Coalesce((y('c1'), 'nope'), (y('c2'), T['zz']), (y('c3', fail=True),)), 'glom'),
        ('vars', lambda: [1, 2, 3], vars_spec, 'glom'),
        ('vars-same-spec', lambda: [7, 8], vars_spec, 'glom'),
        ('argmode', lambda: {'a': 'first'}, argspec, 'glom'),
        ('argmode-same-spec', lambda: {'a': 'second'}, argspec, 'glom'),
        ('shared-scope', lambda: {'q': 1}, (A.globals.owner, y('s1'), {'who': S.globals.owner, 'h': S.helper, 'q': 'q'}, y('s2')),
         ('scope', shared_scope)),
        ('shared-scope-error', lambda: {'inner-target': 1}, (A.globals.owner, y('t1'), 'missing.deeper'), ('scope', shared_scope)),
        ('glommer', lambda: {'g': [1, 2]}, (y('g1'), 'g', [y('g2')], Sum()), ('glommer', glommer)),
        ('glommer-error', lambda: {'g': 5}, (y('h1'), 'g', Coalesce([y('h2')], Match(str))), ('glommer', glommer)),
        ('raise-net-timeout', lambda: {'r': 1}, (y('n1'), {'x': Raiser(ctl, 'net', NetTimeout)}), 'glom'),
        ('raise-db-timeout', lambda: {'r': 2}, (y('d1'), {'x': Raiser(ctl, 'db', DbTimeout)}), 'glom'),
        # ONE Spec object evaluated through its .glom() method, once with a per-call scope and once without
        ('specglom-bound', lambda: {'s': 1}, spec_obj, ('specglom', {'tmp': 'bound-by-this-call'})),
        ('specglom-plain', lambda: {'s': 2}, spec_obj, ('specglom', {})),
        # the same operation failing on the same type of value at two different places
        ('unregistered-deep', lambda: {'a': {'x': 5}}, ('a', y('u1'), 'x', [T]), 'glom'),
        ('unregistered-shallow', lambda: {'b': 7}, (y('u2'), 'b', [T]), 'glom'),
        # (appended: indexes of the entries above are recorded in replay files)
        # a custom spec asks the registry whether the type can be iterated (raise_exc=False); two evaluations that need
        # that handler for a value of the same type: one fails with UnregisteredTarget, one recovers through a default
        ('probe-handler', lambda: {'v': fresh()}, (y('p1'), 'v', HandlerProbe(), y('p2')), 'glom'),
        ('unregistered-fresh', lambda: {'v': fresh()}, (y('f1'), 'v', y('f2'), [T]), 'glom'),
        ('unregistered-fresh-default', lambda: {'v': fresh()}, (y('e1'), 'v', y('e2'), Coalesce(Sum(), default='n/a')), 'glom'),
    ]
    return ctl, pool


def evaluate(entry):
    name, tfac, spec, how = entry
    try:
        if how == 'glom':
            r = glom.glom(tfac(), spec)
        elif how[0] == 'scope':
            r = glom.glom(tfac(), spec, scope=how[1])
        elif how[0] == 'specglom':
            r = spec.glom(tfac(), scope=dict(how[1]))
        else:
            r = how[1].glom(tfac(), spec)
        return ('ok', ADDR.sub('', repr(r)))
    except Exception as e:
        try:
            text = str(e)
        except Exception as e2:
            text = '<str failed: %r>' % (e2,)
        want = EXPECT_CLASS.get(name)
        if want is not None and not isinstance(e, want):
            raise Mismatch('class-lost', 'evaluation %s raised %r (mro %s), which is not an instance of the class that was raised (%s.%s)'
                           % (name, e, [c.__module__ + '.' + c.__name__ for c in type(e).__mro__[:4]], want.__module__, want.__name__))
        return ('err', type(e).__name__, ADDR.sub('', text))


_ISO = {}


def isolated():
    """outcome and yield count of every pool entry run alone (cached per process)"""
    if _ISO:
        return _ISO
    iso_local = {}
    for rnd in range(2):
        for i in range(POOL_SIZE):
            ctl, pool = make_pool()         # a fresh pool per entry: "alone" means no other evaluation came before
            entry = pool[i]
            counter = Sched([])
            ctl.sched = counter
            ctl.local.me = i
            ctl.local.count = 0
            out = evaluate(entry)
            n = len(counter.trace)
            ctl.sched = None
            if rnd == 0:
                iso_local[i] = (out, n)
            elif iso_local[i] != (out, n):
                raise HarnessBug('pool entry %s is not deterministic in isolation: %r vs %r' % (entry[0], iso_local[i], (out, n)))
    # what an entry reports when run alone is known by construction for some entries: a baseline that already deviates
    # (state carried over from an EARLIER, unrelated evaluation in this process) is a violation by itself
    for i, entry in enumerate(make_pool()[1]):
        want = EXPECT_TEXT.get(entry[0])
        if want is not None and want not in iso_local[i][0][-1]:
            _BASELINE_BAD.append(Mismatch('foreign-state', 'evaluation %s run alone must report %r; it reports %r (state left behind by an '
                                          'earlier evaluation of another entry)' % (entry[0], want, iso_local[i][0][-1][-200:])))
    _ISO.update(iso_local)
    return _ISO


_BASELINE_BAD = []
EXPECT_TEXT = {'unregistered-deep': "(at ['a', 'u1', 'x'])", 'unregistered-shallow': "(at ['u2', 'b'])",
               'specglom-plain': "'tmp': 'unset'", 'specglom-bound': "'tmp': 'bound-by-this-call'",
               'unregistered-fresh': "UnregisteredTarget: target type 'Fresh' not registered for 'iterate'",
               'unregistered-fresh-default': "'n/a'", 'probe-handler': '[Fresh()]'}


def assert_baseline():
    isolated()
    if _BASELINE_BAD:
        raise _BASELINE_BAD[0]


def run_schedule(ids, word, limits):
    ctl, pool = make_pool()
    sch = Sched(word)
    ctl.sched = sch
    ctl.limit = dict(limits)
    res = {}

    def run(i):
        ctl.local.me = i
        ctl.local.count = 0
        sch.wait_turn(i)
        try:
            res[i] = evaluate(pool[i])
        finally:
            sch.finish(i)
    ths = [threading.Thread(target=run, args=(i,)) for i in ids]
    for t in ths:
        t.start()
    for t in ths:
        t.join(30)
    if sch.stalled or any(t.is_alive() for t in ths):
        raise HarnessBug('schedule %r over %r stalled' % (word, ids))
    return res, sch.trace


def enum_schedules(tier):
    iso = isolated()
    n = len(iso)
    for i, j in itertools.combinations(range(n), 2):
        ni, nj = min(iso[i][1], 4), min(iso[j][1], 4)
        for w in sorted(set(itertools.permutations([i] * ni + [j] * nj))):
            yield {'ids': [i, j], 'word': list(w), 'limits': [[i, ni], [j, nj]]}
    triples = list(itertools.combinations(range(n), 3))
    if tier == 'quick':
        triples = triples[::7]
    for tr in triples:
        lim = [[i, min(iso[i][1], 2)] for i in tr]
        letters = []
        for i, k in lim:
            letters += [i] * k
        for w in sorted(set(itertools.permutations(letters))):
            yield {'ids': list(tr), 'word': list(w), 'limits': lim}


def switches(word):
    return sum(1 for a, b in zip(word, word[1:]) if a != b)


def check_schedule(recipe, ctx):
    assert_baseline()
    iso = isolated()
    ids, word = recipe['ids'], recipe['word']
    res, trace = run_schedule(ids, word, recipe['limits'])
    ctx.label('evals-%d' % len(ids))
    ctx.nontrivial(switches(word) >= 2)
    _, pool = make_pool()
    for i in ids:
        if res.get(i) != iso[i][0]:
            raise Mismatch('interference', 'schedule %r: evaluation %s gives %r when interleaved with %s, but %r alone'
                           % (word, pool[i][0], res.get(i), [pool[j][0] for j in ids if j != i], iso[i][0]))
    ctx.outcome([[pool[i][0] for i in ids], word])


# ---------------------------------------------------------------------------
# free-running threads

def gen_free(draw):
    n = POOL_SIZE
    return {'assign': [draw(st.lists(st.integers(0, n - 1), min_size=2, max_size=4)) for _ in range(8)],
            'iterations': draw(st.sampled_from([20, 40]))}


def check_free(recipe, ctx):
    assert_baseline()
    iso = isolated()
    ctl, pool = make_pool()
    ctx.nontrivial(True)
    bad = []
    old = sys.getswitchinterval()
    sys.setswitchinterval(1e-6)
    try:
        def run(entries):
            for _ in range(recipe['iterations']):
                for i in entries:
                    out = evaluate(pool[i % len(pool)])
                    if out != iso[i % len(pool)][0]:
                        bad.append((pool[i % len(pool)][0], out, iso[i % len(pool)][0]))
                        return
        ths = [threading.Thread(target=run, args=(a,)) for a in recipe['assign']]
        for t in ths:
            t.start()
        for t in ths:
            t.join(120)
    finally:
        sys.setswitchinterval(old)
    if bad:
        raise Mismatch('interference-free-running', 'evaluation %s gave %r under 8 free-running threads, but %r alone' % bad[0])
    ctx.outcome(recipe['assign'])


# ---------------------------------------------------------------------------
# re-entrancy

def gen_reentrant(draw):
    n = POOL_SIZE
    def node(d):
        return {'entry': draw(st.integers(0, n - 1)),
                'via': draw(st.sampled_from(['glom', 'spec', 'glommer'])),
                'catch': draw(st.sampled_from(['none', 'coalesce', 'default'])),
                'inner': node(d - 1) if d > 0 and draw(st.booleans()) else None}
    return {'outer': draw(st.integers(0, n - 1)), 'nest': node(draw(st.sampled_from([0, 1, 2])))}


def check_reentrant(recipe, ctx):
    """re-entrancy is injected through the yield probes the pool specs already contain, so every spec object
    is exactly the one that is evaluated alone: outcomes (incl. trace text) must be identical"""
    assert_baseline()
    iso = isolated()
    ctl, pool = make_pool()
    observed = []
    n = len(pool)

    def run_level(nest, depth):
        entry_i = nest['entry'] % n
        entry = pool[entry_i]
        inner = nest['inner']

        def body():
            if inner is not None:
                ctl.local.reenter = lambda: run_level(inner, depth + 1)
            out = evaluate(entry)
            ctl.local.reenter = None
            return out

        catch = nest['catch']
        if catch == 'none':
            out = body()
        elif catch == 'coalesce':
            # the nested evaluation happens inside a callable of a wrapper glom call whose failure an
            # outer Coalesce catches
            box = []

            def failing(t):
                box.append(body())
                return glom.glom(t, T['definitely']['missing'])
            via = nest['via']
            wspec = Coalesce((failing, T), Val('caught'))
            if via == 'glom':
                w = glom.glom({'w': 1}, wspec)
            elif via == 'spec':
                w = Spec(wspec).glom({'w': 1})
            else:
                w = Glommer().glom({'w': 1}, wspec)
            if w != 'caught':
                raise Mismatch('reentrant-wrapper', 'outer Coalesce did not catch the inner failure: %r' % (w,))
            out = box[0]
        else:
            box = []

            def defaulted(t):
                box.append(body())
                return glom.glom(t, T['definitely']['missing'], default='dflt')
            w = glom.glom({'w': 1}, (defaulted,))
            if w != 'dflt':
                raise Mismatch('reentrant-wrapper', 'default= of the inner call not honoured: %r' % (w,))
            out = box[0]
        observed.append((depth, entry[0], out, iso[entry_i][0]))

    top = {'entry': recipe['outer'], 'via': 'glom', 'catch': 'none', 'inner': recipe['nest']}
    run_level(top, 0)
    # an inner error that travels out through an enclosing glom() call and is kept by the caller must still render
    # its own trace after the enclosing calls have finished
    kept = []
    inner_i = recipe['nest']['entry'] % n
    if iso[inner_i][0][0] == 'err':
        name_i, tfac_i, spec_i, how_i = pool[inner_i]

        def inner_call(t):
            try:
                if how_i == 'glom':
                    return glom.glom(tfac_i(), spec_i)
                if how_i[0] == 'scope':
                    return glom.glom(tfac_i(), spec_i, scope=how_i[1])
                if how_i[0] == 'specglom':
                    return spec_i.glom(tfac_i(), scope=dict(how_i[1]))
                return how_i[1].glom(tfac_i(), spec_i)
            except Exception as e:
                kept.append((e, ADDR.sub('', str(e))))
                raise

        def mid(t):
            return glom.glom(t, (inner_call,))
        try:
            w = glom.glom({'w': 1}, Coalesce((mid,), Val('caught')))
        except Exception as e:
            w = ('raised', type(e).__name__)
        if isinstance(kept[0][0], GlomError) and w != 'caught':
            raise Mismatch('reentrant-wrapper', 'outer Coalesce did not catch the inner GlomError: %r' % (w,))
        for e, text in kept:
            later = ADDR.sub('', str(e))
            if later != text:
                raise Mismatch('inner-error-rewritten', 'the error of evaluation %s, kept by its caller, renders differently after the '
                               'enclosing glom() calls finished:\n--- at catch time\n%s\n--- later\n%s' % (name_i, text, later))
            if text != iso[inner_i][0][2]:
                raise Mismatch('reentrant', 'evaluation %s nested at depth 3 gives trace\n%s\nbut alone\n%s' % (name_i, text, iso[inner_i][0][2]))
        # reading the text of the inner error (logging it) before re-raising is a pure observation: the error that
        # then leaves the ENCLOSING call must carry that call's own trace either way
        texts = []
        for look in (False, True):
            def inner_call2(t, look=look):
                try:
                    if how_i == 'glom':
                        return glom.glom(tfac_i(), spec_i)
                    if how_i[0] == 'scope':
                        return glom.glom(tfac_i(), spec_i, scope=how_i[1])
                    if how_i[0] == 'specglom':
                        return spec_i.glom(tfac_i(), scope=dict(how_i[1]))
                    return how_i[1].glom(tfac_i(), spec_i)
                except Exception as e:
                    if look:
                        str(e)
                    raise
            inner_call2.__name__ = 'inner_call2'
            try:
                glom.glom({'w': 1}, (inner_call2,))
                texts.append('no error')
            except Exception as e2:
                texts.append(re.sub(r'inner_call2 at 0x[0-9a-f]+', 'inner_call2', ADDR.sub('', str(e2))))
        if texts[0] != texts[1]:
            raise Mismatch('enclosing-trace-lost', 'evaluation %s fails inside a callable of an enclosing glom() call; the message of '
                           'the error leaving the enclosing call depends on whether the callable read str() of the inner error before '
                           're-raising:\n--- not read\n%s\n--- read\n%s' % (name_i, texts[0], texts[1]))
        if isinstance(kept[0][0], GlomError) and "Target: {'w': 1}" not in texts[0].split('\n')[2:3][0:1].__repr__():
            raise Mismatch('enclosing-trace-lost', 'the trace of the enclosing call does not begin with its root target:\n%s' % texts[0])
        ctx.label('kept-inner-error')
    depth_max = max(d for d, _, _, _ in observed)
    ctx.label('depth-%d' % depth_max, 'catch-' + recipe['nest']['catch'])
    ctx.nontrivial(depth_max >= 2)
    for depth, nm, out, alone in observed:
        if out != alone:
            raise Mismatch('reentrant', 'evaluation %s at nesting depth %d (of %d) gives %r, but %r alone'
                           % (nm, depth, depth_max, out, alone))
    ctx.outcome([[o[1] for o in observed], depth_max])


# ---------------------------------------------------------------------------
# escape: an error leaves a re-entrant call and then the enclosing call(s)
#
# "glom calls made re-entrantly from callables ... inside a running glom call each produce exactly the result, error and
# error trace they produce when run alone": a nest of 2-3 calls, level i+1 calling level i from a callable of its spec,
# level 0 raising.  Whatever leaves level i - seen by the callable of level i+1, or by the caller of the outermost call -
# must be the error level i produces when it runs alone (its callable raising the same error itself, nothing nested
# below): same class, same args, and the target-spec trace of level i - its root target, its specs - not that of a call
# nested below it.  The errors are of classes glom can re-create from their args, and of classes it cannot (keyword-only
# or arity-changing constructor, constructor that transforms its args, __copy__ that raises or yields another class):
# the statement makes no difference between them.

class KwOnlyError(GlomError):
    def __init__(self, *, code):
        super().__init__(code)
        self.code = code

    def get_message(self):
        return 'kwonly refuses (code %s)' % (self.code,)


class ExtraArgError(GlomError):
    def __init__(self, code, extra):
        super().__init__(code)
        self.extra = extra


class TransformError(GlomError):
    def __init__(self, code):
        super().__init__('E%s' % (code,))


class CopyRaisesError(GlomError):
    def __copy__(self):
        raise RuntimeError('no copies of %s' % type(self).__name__)


class CopyOtherClassError(GlomError):
    def __reduce__(self):
        return (GlomError, self.args)


class PlainGlomError(GlomError):
    pass


class FrozenError(GlomError):
    def __init__(self, code):
        super().__init__(code)
        self.__dict__['sealed'] = True

    def __setattr__(self, name, value):
        if self.__dict__.get('sealed') and not name.startswith('__'):
            raise AttributeError('%s is frozen' % type(self).__name__)
        super().__setattr__(name, value)


class KwOnlyPlainError(Exception):
    """not a GlomError, and not re-creatable: documented to leave glom() as it is"""
    def __init__(self, *, code):
        super().__init__(code)


ERR_MAKERS = {
    'kwonly': (KwOnlyError, lambda c: KwOnlyError(code=c)),
    'extra': (ExtraArgError, lambda c: ExtraArgError(c, 'more')),
    'transform': (TransformError, lambda c: TransformError(c)),
    'copy-raises': (CopyRaisesError, lambda c: CopyRaisesError('cr', c)),
    'copy-other-class': (CopyOtherClassError, lambda c: CopyOtherClassError('co', c)),
    'plain': (PlainGlomError, lambda c: PlainGlomError('pl', c)),
    'frozen': (FrozenError, lambda c: FrozenError(c)),
    'builtin': (ValueError, lambda c: ValueError('v%s' % (c,))),
    'builtin-kwonly': (KwOnlyPlainError, lambda c: KwOnlyPlainError(code=c)),
}
ERR_KINDS = sorted(ERR_MAKERS)
# GlomError subclasses copy.copy() cannot rebuild as they are
UNCOPYABLE = ('kwonly', 'extra', 'transform', 'copy-raises', 'copy-other-class')
# kinds whose error carries a target-spec trace when it leaves glom(): GlomErrors, and builtin errors glom can wrap
TRACED = UNCOPYABLE + ('plain', 'builtin')
ESC_SHAPES = ('dict', 'chain', 'list', 'branch')
ESC_VIAS = ('glom', 'spec', 'glommer')
ESC_LOOKS = ('none', 'str', 'args')
MIN_WIDTH = 50          # a trace line of at most this many characters is never shortened


class Step(object):
    def __init__(self, run, i):
        self.run, self.i = run, i
        self.__name__ = 'step%d' % i

    def __call__(self, t):
        return self.run.step(self.i, t)

    def __repr__(self):
        return 'Step(%d)' % self.i


def trace_head(text):
    """the target-spec trace of a rendered error: the lines between the two headlines and the python traceback"""
    lines = text.split('\n')
    if lines[:2] != ['error raised while processing, details below.', ' Target-spec trace (most recent last):']:
        return None
    out = []
    for line in lines[2:]:
        if line[:3] not in (' - ', ' + ') and not line.startswith(' |'):
            break
        out.append(line)
    return out


class EscapeRun(object):
    def __init__(self, recipe):
        self.kind = recipe['err']
        self.code = recipe['code']
        self.levels = recipe['levels']
        self.cls, self.make = ERR_MAKERS[self.kind]
        self.alone = None           # level that runs alone: its callable raises the error itself
        self.seen = {}              # level -> what the callable of the level above saw leaving it
        self.glommer = Glommer()
        self.calls = []
        for i, lv in enumerate(self.levels):
            k, t, stp = 'k%d' % i, 't%d' % i, Step(self, i)
            shape = lv['shape']
            if shape == 'dict':
                target, spec = {k: t}, {'o%d' % i: (k, stp)}
            elif shape == 'chain':
                target, spec = {k: t}, (k, stp)
            elif shape == 'list':
                target, spec = {k: [t]}, (k, [stp])
            else:
                # the first branch fails with a PathAccessError (a KeyError), the second one holds the callable
                target, spec = {k: t}, Coalesce('n', stp, skip_exc=KeyError)
            self.calls.append((target, spec, lv['via']))

    def call(self, i):
        target, spec, via = self.calls[i]
        if via == 'glom':
            return glom.glom(target, spec)
        if via == 'spec':
            return Spec(spec).glom(target)
        return self.glommer.glom(target, spec)

    def observe(self, e, render):
        return {'class': type(e).__name__, 'isinstance': isinstance(e, self.cls), 'args': repr(e.args),
                'head': trace_head(ADDR.sub('', str(e))) if render else 'not rendered',
                'text': ADDR.sub('', str(e)) if render else 'not rendered'}

    def step(self, i, t):
        if i == 0 or i == self.alone:
            raise self.make(self.code)
        look = self.levels[i - 1]['look']
        if look == 'none' or self.alone is not None:
            return self.call(i - 1)
        try:
            return self.call(i - 1)
        except Exception as e:
            # e.g. logged by the callable: a pure observation
            self.seen[i - 1] = self.observe(e, look == 'str')
            raise

    def outermost(self, i):
        try:
            r = self.call(i)
        except Exception as e:
            return self.observe(e, True)
        return {'class': None, 'value': repr(r)}


def gen_escape(draw):
    depth = draw(st.sampled_from([2, 2, 3]))
    return {'err': draw(st.sampled_from(ERR_KINDS)), 'code': draw(st.sampled_from(range(1, 8))),
            'levels': [{'via': draw(st.sampled_from(ESC_VIAS)), 'shape': draw(st.sampled_from(ESC_SHAPES)),
                        'look': draw(st.sampled_from(ESC_LOOKS))} for _ in range(depth)]}


def check_escape(recipe, ctx):
    run = EscapeRun(recipe)
    top = len(run.levels) - 1
    nested_top = run.outermost(top)
    nested = dict(run.seen)         # level -> what was seen leaving it
    nested[top] = nested_top
    kind = recipe['err']
    ctx.label('err-' + kind, 'depth-%d' % (top + 1))
    if kind in UNCOPYABLE:
        ctx.label('uncopyable-glomerror')
    if any(i != top and nested[i]['head'] != 'not rendered' for i in nested):
        ctx.label('rendered-on-the-way')
    ctx.nontrivial(True)
    for i in sorted(nested):
        got = nested[i]
        target, spec, via = run.calls[i]
        where = 'level %d of %d (%s, target %r, spec %r), error kind %s' % (i, top + 1, via, target, spec, kind)
        if got['class'] is None:
            raise Mismatch('escape-lost', '%s: the call returned %s although its callable raised' % (where, got['value']))
        # the same call alone: its callable raises the error itself
        ref = EscapeRun(recipe)
        ref.alone = i
        alone = ref.outermost(i)
        if alone['class'] is None or not alone['isinstance']:
            raise Mismatch('escape-alone', '%s: run alone the call gives %r, not an instance of the class its callable raised' % (where, alone))
        if kind in TRACED:
            # by construction: the trace of a call begins with the target and the spec that call was given
            want = [' - Target: %r' % (target,), ' %s Spec: %r' % ('+' if recipe['levels'][i]['shape'] == 'branch' else '-', spec)]
            if max(len(w) for w in want) > MIN_WIDTH:
                raise HarnessBug('escape: expected trace line longer than the minimal width: %r' % (want,))
            if (alone['head'] or [])[:2] != want:
                raise Mismatch('escape-alone', '%s: run alone, the trace does not begin with the target and spec of the call:\n%s'
                               % (where, alone['text']))
        for field in ('class', 'isinstance', 'args'):
            if got[field] != alone[field]:
                raise Mismatch('escape-error-changed', '%s: nested, the error leaving the call has %s %r; alone %r'
                               % (where, field, got[field], alone[field]))
        if got['head'] == 'not rendered':
            continue
        if kind in TRACED and (got['head'] or [])[:2] != want:
            raise Mismatch('enclosing-trace-lost', '%s: the error that left this call after coming out of the call nested in its callable '
                           'does not show the trace of this call (expected to begin with %r):\n%s' % (where, want, got['text']))
        if got['head'] != alone['head']:
            raise Mismatch('enclosing-trace-lost', '%s: the target-spec trace of the error leaving this call is\n%s\nbut when the call '
                           'runs alone (its callable raising the same error itself) it is\n%s'
                           % (where, '\n'.join(got['head'] or ['<none>']), '\n'.join(alone['head'] or ['<none>'])))
    ctx.outcome([kind, top + 1, nested_top['class'], (nested_top['head'] or ['<no trace>'])[:2]])


# ---------------------------------------------------------------------------
# registering: an evaluation whose callable registers a handler for a type and then uses it, while another evaluation
# looks the same type up
#
# Evaluation A = glom(obj, (a1, {'prior': <access>, 'after': (RegStep, a3, <access>)})): its callable RegStep calls
# register(Rec, get=h) / register(Rec, iterate=h) and A then accesses obj (a Rec, or an instance of a subclass) through
# the registry.  Run alone, A reports what the registered handler gives (register() is documented to take effect for
# the calls that follow).  Evaluation B = glom(obj2, (b1, <access>, b2)) looks the same type up.  B runs in a second
# thread under every interleaving of the yield points of the two (3 + 2, ENUMERATED), or re-entrantly from the one user
# callable that runs in the middle of a registration.  That callable is the yield point of A inside register(): the
# support-detection function (auto_func) of an extension operation, or the __subclasscheck__ of the metaclass of the type
# being registered.  The statement: A produces exactly the result it produces alone, whatever B did meanwhile.  B itself
# legitimately depends on whether it came before or after the registration (a registration is a global effect by
# design): it must report one of the two outcomes it reports alone (before / after), nothing else.
# Not asserted here (not a statement about concurrent or re-entrant glom CALLS): what calls made after both evaluations
# finished report; a bare register() outside any glom call racing with a glom call - that is history (C06) and handler
# choice (C13).

_WINDOW_HOOKS = {}
_GLOBAL_OP = []


def fire_window(kind, type_obj):
    hook = _WINDOW_HOOKS.pop((kind, type_obj), None)        # once per registration
    if hook is not None:
        hook()


def window_probe(type_obj):
    """support detection of the extension operation 'c20_window': never supported"""
    fire_window('autofunc', type_obj)
    return False


class HookMeta(type):
    def __subclasscheck__(cls, sub):
        fire_window('subclasscheck', cls)
        return type.__subclasscheck__(cls, sub)

    def __instancecheck__(cls, obj):
        fire_window('instancecheck', cls)
        return type.__instancecheck__(cls, obj)


def new_get(obj, name):
    return ['new_get', name]


def old_get(obj, name):
    return ['old_get', name]


def new_iterate(obj):
    return iter(['new_it'])


def old_iterate(obj):
    return iter(['old_it'])


class RegStep(object):
    def __init__(self, world):
        self.world = world
        self.__name__ = 'regstep'

    def __call__(self, t):
        w = self.world
        if w.recipe['window'] in REGISTER_SIDE:
            _WINDOW_HOOKS[(w.recipe['window'], w.Rec)] = w.in_window
        try:
            w.register(w.Rec, **{w.recipe['op']: new_get if w.recipe['op'] == 'get' else new_iterate})
        finally:
            _WINDOW_HOOKS.pop((w.recipe['window'], w.Rec), None)
        w.registered = True
        return t

    def __repr__(self):
        return 'RegStep()'


class ArmStep(object):
    """lookup-side yield point: the next isinstance() check against the registered type Other (made by the handler lookup
    of the step that follows) is a user callable, the __instancecheck__ of its metaclass"""
    def __init__(self, world, on):
        self.world, self.on = world, on
        self.__name__ = 'arm' if on else 'disarm'

    def __call__(self, t):
        w = self.world
        if self.on and w.recipe['window'] == 'instancecheck':
            _WINDOW_HOOKS[('instancecheck', w.Other)] = w.in_lookup
        else:
            _WINDOW_HOOKS.pop(('instancecheck', w.Other), None)
        return t

    def __repr__(self):
        return 'ArmStep(%s)' % self.on


REGISTER_SIDE = ('autofunc', 'subclasscheck')


class RegWorld(object):
    """fresh types, a fresh registry (Glommer) or the global one, and the two evaluations"""
    def __init__(self, recipe):
        self.recipe = recipe
        self.ctl = Ctl()
        self.window_seen = 0
        self.registered = False
        self.other = None           # how B is run from inside the window, if it is
        self.res_b = []
        body = {'__init__': lambda s: s.__dict__.update(x='attr-x'), '__repr__': lambda s: type(s).__name__ + '()'}
        self.Base = HookMeta('Base', (object,), dict(body))
        self.Rec = HookMeta('Rec', (self.Base,), {})
        self.Sub = HookMeta('SubRec', (self.Rec,), {})
        self.cls = self.Rec if recipe['kind'] == 'same' else self.Sub
        self.Other = HookMeta('Other', (object,), {})
        self.lookup_seen = 0
        if recipe['reg'] == 'glommer':
            g = Glommer()
            g.scope[TargetRegistry].register_op('c20_window', auto_func=window_probe)
            self.register, self.glom = g.register, g.glom
        else:
            if not _GLOBAL_OP:
                glom.register_op('c20_window', auto_func=window_probe)
                _GLOBAL_OP.append(True)
            self.register, self.glom = glom.register, glom.glom
        op = recipe['op']
        if recipe['old'] == 'registered':
            # (an earlier registration of the BASE class: the type itself is registered by evaluation A for the first time)
            self.register(self.Base, **{op: old_get if op == 'get' else old_iterate})
        # an unrelated registered type: a handler lookup for an object of another type asks isinstance(obj, Other)
        self.register(self.Other, get=getattr)
        y = lambda name: Y(self.ctl, name)
        if op == 'get':
            access = lambda: glom.Path('x') if recipe['alt'] else 'x'
        else:
            access = lambda: Iter().all() if recipe['alt'] else [T]
        prior = Coalesce(access(), default='unsupported') if recipe['prior'] else Val('skipped')
        self.spec_a = (y('a1'), {'prior': prior, 'after': (RegStep(self), y('a3'), access())})
        self.spec_b = (y('b1'), ArmStep(self, True), access(), ArmStep(self, False), y('b2'))

    def in_window(self):
        self.window_seen += 1
        if self.other == 'reentrant':
            self.res_b.append(self.run_b())
        elif self.other == 'thread':
            self.ctl.point()

    def in_lookup(self):
        self.lookup_seen += 1
        self.ctl.point()

    def outcome(self, spec):
        try:
            return ('ok', ADDR.sub('', repr(self.glom(self.cls(), spec))))
        except Exception as e:
            return ('err', type(e).__name__, ADDR.sub('', str(e)))

    def run_a(self):
        out = self.outcome(self.spec_a)
        if self.window_seen != (1 if self.recipe['window'] in REGISTER_SIDE else 0):
            raise HarnessBug('registering: the yield point inside register() was reached %d times (%r)' % (self.window_seen, self.recipe))
        return out

    def run_b(self):
        return self.outcome(self.spec_b)


REG_WORDS = sorted(set(itertools.permutations([0] * 3 + [1] * 2)))
REG_DIMS = [('reg', ('glommer', 'global')), ('op', ('get', 'iterate')), ('window', ('autofunc', 'subclasscheck')),
            ('kind', ('same', 'subclass')), ('old', ('unregistered', 'registered')), ('prior', (False, True)),
            ('alt', (False, True))]


def enum_registering(tier):
    for combo in itertools.product(*[vals for _, vals in REG_DIMS]):
        base = dict(zip([n for n, _ in REG_DIMS], combo))
        if base['reg'] == 'global' and base['op'] == 'iterate' and base['old'] == 'unregistered':
            # the text of UnregisteredTarget lists the registered types: in the default registry that list grows with every
            # case of this process, so B's error text is not comparable between the reference run and the scheduled run
            continue
        yield dict(base, other='reentrant', word=None)
        for w in REG_WORDS:
            yield dict(base, other='thread', word=list(w))


LOOKUP_WORDS = sorted(set(itertools.permutations([0] * 2 + [1] * 3)))


def enum_lookuprace(tier):
    """the mirror image: the yield point is inside the handler LOOKUP of evaluation B (the __instancecheck__ of the metaclass
    of an unrelated registered type); evaluation A registers its handler without being interrupted.  A: 2 yield points,
    B: 3, every interleaving"""
    for combo in itertools.product(*[vals for _, vals in REG_DIMS]):
        base = dict(zip([n for n, _ in REG_DIMS], combo))
        if base['window'] != 'autofunc' or base['prior']:
            continue            # (one case per remaining combination; an earlier access by A would pre-empt B's lookup)
        if base['reg'] == 'global' and base['op'] == 'iterate' and base['old'] == 'unregistered':
            continue
        for w in LOOKUP_WORDS:
            yield dict(base, window='instancecheck', other='thread', word=list(w))


def check_registering(recipe, ctx):
    op, old = recipe['op'], recipe['old']
    lookup_side = recipe['window'] not in REGISTER_SIDE
    # by construction (register() documentation): before the registration the old handler / plain attribute access /
    # no iteration, after it the registered handler
    new_val = ['new_get', 'x'] if op == 'get' else ['new_it']
    if op == 'get':
        old_val = 'attr-x' if old == 'unregistered' else ['old_get', 'x']
    else:
        old_val = None if old == 'unregistered' else ['old_it']
    prior_val = 'skipped' if not recipe['prior'] else ('unsupported' if old_val is None else old_val)
    want_a = ('ok', repr({'prior': prior_val, 'after': new_val}))
    # alone: B before, A, B after - nothing interleaved
    ref = RegWorld(recipe)
    b_before = ref.run_b()
    a_alone = ref.run_a()
    b_after = ref.run_b()
    if a_alone != want_a:
        raise Mismatch('registering-alone', 'the evaluation that registers %s=... for its type and then uses it gives %r when run alone; '
                       'by construction %r' % (op, a_alone, want_a))
    if b_after != ('ok', repr(new_val)) or (b_before != ('ok', repr(old_val)) if old_val is not None
                                            else b_before[:2] != ('err', 'UnregisteredTarget')):
        raise Mismatch('registering-alone', 'the evaluation that looks the type up gives %r before and %r after the registration '
                       '(run alone); by construction %r and %r' % (b_before, b_after, old_val, new_val))
    for key in [k for k in _WINDOW_HOOKS if k[1] in (ref.Rec, ref.Other)]:
        del _WINDOW_HOOKS[key]
    w = RegWorld(recipe)
    w.other = recipe['other']
    if recipe['other'] == 'reentrant':
        res_a = w.run_a()
        res_b = w.res_b[0]
        when = 'during'
        ctx.label('reentrant-in-register')
        ctx.nontrivial(True)
    else:
        sch = Sched(recipe['word'])
        w.ctl.sched = sch
        w.ctl.limit = {0: 2, 1: 3} if lookup_side else {0: 3, 1: 2}
        res = {}

        def run(i):
            w.ctl.local.me = i
            w.ctl.local.count = 0
            sch.wait_turn(i)
            try:
                res[i] = w.run_a() if i == 0 else w.run_b()
            except HarnessBug as e:
                res[i] = e
            finally:
                sch.finish(i)
        ths = [threading.Thread(target=run, args=(i,)) for i in (0, 1)]
        for t in ths:
            t.start()
        for t in ths:
            t.join(30)
        if sch.stalled or any(t.is_alive() for t in ths):
            raise HarnessBug('registering: schedule %r stalled' % (recipe['word'],))
        if isinstance(res.get(0), HarnessBug):
            raise res[0]
        res_a, res_b = res.get(0), res.get(1)
        # B's lookup happens between its two yield points; A is inside register() between its 2nd and 3rd
        word = recipe['word']
        pos_a, pos_b = [k for k, x in enumerate(word) if x == 0], [k for k, x in enumerate(word) if x == 1]
        if lookup_side:
            # A registers between its 1st and 2nd yield point; B's lookup begins after its 1st yield point and, if it
            # reaches the yield point inside the lookup, ends after its 2nd
            if w.lookup_seen > 1:
                raise HarnessBug('lookuprace: the yield point inside the lookup was reached %d times' % w.lookup_seen)
            when = 'after' if pos_a[1] < pos_b[1] else 'before' if pos_a[1] > pos_b[2] else 'during'
            if when != 'after' and not w.lookup_seen:
                raise HarnessBug('lookuprace: the first lookup of the type did not reach the yield point inside the lookup (%r)' % (recipe,))
            ctx.label('register-%s-lookup' % {'after': 'before', 'before': 'after', 'during': 'during'}[when])
        else:
            when = 'before' if pos_b[1] < pos_a[1] else 'during' if pos_b[1] < pos_a[2] else 'after'
            ctx.label('lookup-%s-register' % when)
        ctx.nontrivial(switches(word) >= 2)
    for key in [k for k in _WINDOW_HOOKS if k[1] in (w.Rec, w.Other)]:
        del _WINDOW_HOOKS[key]
    ctx.label('window-' + recipe['window'], 'op-' + op)
    what = 'registry %s, op %s, yield point inside %s: %s, target: %s of the registered type, before: %s, %s' % (
        recipe['reg'], op, 'the other evaluation\'s handler lookup' if lookup_side else 'register()', recipe['window'], 'instance' if recipe['kind'] == 'same' else 'instance of a subclass', old,
        'other evaluation made re-entrantly from inside register()' if recipe['word'] is None else 'schedule %r' % (recipe['word'],))
    if res_a != a_alone:
        raise Mismatch('registration-lost', '%s: the evaluation that registers a handler and then uses it gives %r; alone %r'
                       % (what, res_a, a_alone))
    if when == 'during':
        # a lookup in the middle of a registration: the statement does not say which of the two it is; the value before or
        # the value after, or the class of error before (the text of UnregisteredTarget lists what is registered right now)
        essence = lambda o: o if o[0] == 'ok' else o[:2]
        allowed, fine = (b_before, b_after), essence(res_b) in (essence(b_before), essence(b_after))
    else:
        allowed = (b_before,) if when == 'before' else (b_after,)
        fine = res_b in allowed
    if not fine:
        raise Mismatch('interference', '%s: the evaluation that looks the type up %s the registration gives %r; alone %s'
                       % (what, when, res_b, ' / '.join(repr(o) for o in allowed)))
    ctx.outcome([res_a, res_b])


SUBS = [
    Sub('schedules', check_schedule, enum=enum_schedules),
    Sub('free', check_free, gen=gen_free, quick=8, thorough=64, shards=8),
    Sub('reentrant', check_reentrant, gen=gen_reentrant, quick=1200, thorough=5000),
    Sub('escape', check_escape, gen=gen_escape, quick=480, thorough=3000,
        floors={'uncopyable-glomerror': 0.25, 'rendered-on-the-way': 0.15, 'depth-3': 0.12}),
    # (last: its 'global' cases leave an extension operation and fresh types in the default registry of the worker process)
    Sub('registering', check_registering, enum=enum_registering,
        floors={'lookup-during-register': 0.1, 'reentrant-in-register': 0.045}),
    Sub('lookuprace', check_registering, enum=enum_lookuprace, floors={'register-during-lookup': 0.1}),
]
