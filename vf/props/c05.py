"""C05 — Error messages carry a faithful target-spec trace down to the failing spec.

Generator: spec shapes with exactly one *terminal* failure planted at a chosen position (missing path
segment, failing T step, probe raising GlomError / ValueError, failing Check, failing Match, lookup of
an unbound scope name) and optional *recovered* branches before it (Coalesce / Or / Switch / Not
alternatives that fail and are caught): linear nestings (dict, list, Spec, Auto, Call / Invoke
arguments, S(k=..)), chains (tuple, Pipe), branches (Coalesce, Or, And, Not, Switch) and branches
inside chains inside branches; every leaf and every intermediate target has a unique, address-free
repr, some longer than the width, some non-ASCII.

Oracle: the evaluation tree (what was really evaluated, on which target, with which outcome) is
recorded through the documented scope[glom] extension point; the message is parsed by its `|` depth
markers and checked against the tree with rules taken from the statement (see check_trace).
"""
import re
import traceback

import os

from hypothesis import strategies as st

import glom
import glom.core
from glom import (T, S, Val, Spec, Auto, Coalesce, Pipe, Call, Invoke, Check, Match, Switch, And, Or, Not, M,
                  GlomError)
from glom.core import bbrepr
from glom import Iter

from .. import fuzzrun
from ..runner import Sub, Mismatch, HarnessBug

PROPERTY = 'C05'
RULE = ('spec trees of depth <= 5 with one terminal failure at a generated position and recovered failing branches before it; '
        'every spec leaf and every target has a unique repr. Non-trivial = depth >= 3, or >= 1 branch point on the failing path, '
        'or a recovered branch before the failure.')
ASSUMPTIONS = [
    'the evaluation tree recorded through scope[glom] (the extension point Inspect uses) is the ground truth of what was evaluated',
    'rules checked: header; first entry = root target; one Spec line per nesting level of the failing path, in order; the innermost '
    'failing spec is shown with the target it received; attempted branches of branch points on the path appear with their errors; '
    'no Spec line names a spec outside the failing path, its completed chain steps, its attempted branches or the innermost spec\'s '
    'own subtree; the message ends with the original error; same structure and no over-long line at widths 50..200',
    'messages contain no newlines; truncated values must be a prefix of the full repr followed by "..." / "... (len=N)"',
]
ADDR = re.compile(r' at 0x[0-9a-f]+')


class Named(object):
    """target value with a unique, address-free repr"""
    def __init__(self, name, items=None):
        self.name = name
        self.items = items

    def __repr__(self):
        return self.name

    def __iter__(self):
        return iter(self.items or ())

    def __len__(self):
        return len(self.items or ())

    def __eq__(self, other):
        # equal-but-distinct targets exist on purpose: the trace must go by identity, not equality
        return isinstance(other, Named) and other.name == self.name

    def __ne__(self, other):
        return not self == other

    def __hash__(self):
        return hash(self.name)


class Probe(object):
    def __init__(self, n, behaviour):
        self.n, self.behaviour = n, behaviour
        self.__name__ = 'probe%d' % n

    def __call__(self, t):
        b = self.behaviour
        if b == 'glomerror':
            raise GlomError('probe%d refuses' % self.n)
        if b == 'valueerror':
            raise ValueError('probe%d fails' % self.n)
        if b == 'keyerror':
            raise KeyError('probe%d key' % self.n)              # KeyError has its own __str__
        if b == 'oserror':
            raise FileNotFoundError(2, 'probe%d file' % self.n)  # so has OSError
        if b == 'cyclic':
            lst = [Named('c%d' % self.n)]
            lst.append(lst)
            return lst
        if b == 'list':
            return Named('L%d' % self.n, [Named('item%d_a' % self.n), Named('item%d_b' % self.n)])
        if b == 'long':
            return Named('long%d_' % self.n + 'x' * 90)
        if b == 'unicode':
            return Named('tärget%d_é' % self.n)
        if b == 'clone':
            return Named(getattr(t, 'name', 'anon'), getattr(t, 'items', None))     # equal to t, not t
        return Named('t%d' % self.n)

    def __repr__(self):
        return 'probe%d' % self.n


class Factory(object):
    def __init__(self, value):
        self.value = value

    def __call__(self):
        return self.value

    def __repr__(self):
        return 'Factory(%r)' % (self.value,)


def skip_all(v):
    return True


class _Ident(object):
    """pass-through callable with a short, address-free repr"""
    __name__ = 'ident'

    def __call__(self, *a, **kw):
        return a[-1] if a else None

    def __repr__(self):
        return 'ident'


ident = _Ident()


# ---------------------------------------------------------------------------
# generation

def gen_spec(draw, d, must_fail, counter):
    S_ = st.sampled_from
    counter[0] += 1
    n = counter[0]
    kinds = ['leaf'] if d <= 0 else ['leaf', 'tuple', 'tuple', 'pipe', 'dict', 'list', 'coalesce', 'coalesce', 'or', 'and',
                                     'not', 'switch', 'switch', 'auto', 'spec', 'call', 'invoke', 'sbind', 'recovered'] + \
        (['coalesce-skip'] if must_fail else [])
    k = draw(S_(kinds))
    if k == 'leaf':
        if must_fail:
            if d > 0 and draw(S_(range(6))) == 0:
                # a spec that recovers through a CONSTANT default, inside a spec that then fails on its own
                # without evaluating anything else (Check after its sub-spec, a T index that is missing)
                return [draw(S_(['checkrec', 'tindexrec'])), n, [['fail', 'path', n + 500], ['fail', 'tstep', n + 501]][:draw(st.integers(1, 2))],
                        draw(S_(['const', 'factory', 'spec']))]
            if draw(S_(range(8))) == 0:
                # the failing spec is a bare T expression in ARGUMENT position (a default, a computed key, a Call argument)
                return ['argfail', draw(S_(['coalesce-default', 'tkey', 'call'])), n]
            return ['fail', draw(S_(['path', 'tstep', 'glomerror', 'valueerror', 'check', 'match', 'sunbound', 'path', 'tstep', 'keyerror', 'oserror'])), n]
        return ['ok', draw(S_(['plain', 'plain', 'plain', 'long', 'unicode', 'clone'] * 4 + ['cyclic'])), n]
    sub = lambda mf: gen_spec(draw, d - 1, mf, counter)
    if k in ('tuple', 'pipe'):
        m = draw(st.integers(1, 3))
        steps = [sub(False) for _ in range(m)]
        if must_fail:
            steps.insert(draw(st.integers(0, len(steps))), sub(True))
            # steps after the failing one are never evaluated; keep some to check they do not show up
        return [k, steps]
    if k == 'dict':
        m = draw(st.integers(1, 3))
        vals = [sub(False) for _ in range(m)]
        if must_fail:
            vals.insert(draw(st.integers(0, len(vals))), sub(True))
        return ['dict', vals]
    if k == 'list':
        return ['list', n, sub(must_fail)]
    if k in ('coalesce', 'or'):
        m = draw(st.integers(0, 2))
        alts = [sub(True) for _ in range(m)]
        alts.append(sub(must_fail))
        if not must_fail and draw(st.booleans()):
            alts.append(sub(False))          # never evaluated
        return [k, alts]
    if k == 'coalesce-skip':
        # every alternative is either failing or yields a value that skip= rejects: the Coalesce itself raises,
        # after abandoned branches AND alternatives that ran without raising
        alts = [sub(draw(st.booleans())) for _ in range(draw(st.integers(1, 3)))]
        if not any(a[0] != 'fail' or True for a in alts):
            alts.append(sub(False))
        return ['coalesce-skip', alts]
    if k == 'and':
        m = draw(st.integers(0, 2))
        kids = [sub(False) for _ in range(m)]
        kids.append(sub(must_fail))
        return ['and', kids]
    if k == 'not':
        return ['not', sub(not must_fail)]
    if k == 'switch':
        cases = [[sub(True), ['ok', 'plain', 0]] for _ in range(draw(st.integers(0, 2)))]
        if must_fail and draw(st.booleans()):
            cases.append([sub(False), sub(True)])            # key passes, value fails
        elif must_fail:
            cases.append([sub(True), ['ok', 'plain', 0]])     # no case matches
        else:
            cases.append([sub(False), sub(False)])
        return ['switch', cases]
    if k in ('auto', 'spec', 'call', 'invoke', 'sbind'):
        return [k, sub(must_fail)]
    # recovered: a step that fails inside and recovers, followed by the rest of the chain
    rec = ['coalesce', [sub(True) for _ in range(draw(st.integers(1, 2)))] + [sub(False)]] if draw(st.booleans()) \
        else ['coalesce-default', [sub(True) for _ in range(draw(st.integers(1, 2)))]]
    return ['tuple', [rec, sub(must_fail)]]


def gen(draw):
    counter = [0]
    return {'spec': gen_spec(draw, draw(st.sampled_from([2, 3, 3, 4, 5])), True, counter)}


def build(r):
    k = r[0]
    if k == 'ok':
        return Probe(r[2], r[1])
    if k == 'fail':
        kind, n = r[1], r[2]
        if kind == 'path':
            return 'missing%d' % n
        if kind == 'tstep':
            return T['nope%d' % n]
        if kind in ('glomerror', 'valueerror', 'keyerror', 'oserror'):
            return Probe(n, kind)
        if kind == 'check':
            return Check(type=(int, type('Marker%d' % n, (), {})))
        if kind == 'match':
            return Match('expected%d' % n)
        return getattr(S, 'unbound%d' % n)
    if k == 'argfail':
        bad = T['argnope%d' % r[2]]
        if r[1] == 'coalesce-default':
            return Coalesce('missing%d' % r[2], default=bad)
        if r[1] == 'tkey':
            return T[bad]
        return Call(ident, args=(bad,))
    if k in ('checkrec', 'tindexrec'):
        how = r[3] if len(r) > 3 else 'const'
        text = ('const%d' if k == 'checkrec' else 'nokey%d') % r[1]
        kw = {'default': text} if how == 'const' else {'default': Val(text)} if how == 'spec' else {'default_factory': Factory(text)}
        inner = Coalesce(*[build(x) for x in r[2]], **kw)
        return Check(inner, type=type('Marker%d' % r[1], (), {})) if k == 'checkrec' else T[inner]
    if k == 'tuple':
        return tuple(build(x) for x in r[1])
    if k == 'pipe':
        return Pipe(*[build(x) for x in r[1]])
    if k == 'dict':
        return dict(('f%d' % i, build(x)) for i, x in enumerate(r[1]))
    if k == 'list':
        return (Probe(r[1] + 1000, 'list'), [build(r[2])])
    if k == 'coalesce':
        return Coalesce(*[build(x) for x in r[1]])
    if k == 'coalesce-skip':
        return Coalesce(*[build(x) for x in r[1]], skip=skip_all)
    if k == 'coalesce-default':
        return Coalesce(*[build(x) for x in r[1]], default=Val('recovered'))
    if k == 'or':
        return Or(*[build(x) for x in r[1]])
    if k == 'and':
        return And(*[build(x) for x in r[1]])
    if k == 'not':
        return Not(build(r[1]))
    if k == 'switch':
        return Switch([(build(a), build(b)) for a, b in r[1]])
    if k == 'auto':
        return Auto(build(r[1]))
    if k == 'spec':
        return Spec(build(r[1]))
    if k == 'call':
        return Call(ident, args=(Spec(build(r[1])),))
    if k == 'invoke':
        return Invoke(ident).specs(build(r[1]))
    if k == 'sbind':
        return (S(bound=Spec(build(r[1]))), T)
    raise ValueError(r)


# ---------------------------------------------------------------------------
# evaluation tree via the scope[glom] extension point

class Node(object):
    def __init__(self, spec, target, parent):
        self.spec, self.target, self.parent = spec, target, parent
        self.children = []
        self.exc = None

    def subtree(self):
        out = [self]
        for c in self.children:
            out.extend(c.subtree())
        return out


def trace_tree(spec, target):
    inner = glom.core._DEFAULT_SCOPE[glom.glom]
    # glom() evaluates the root spec itself directly; the extension point sees every evaluation below it
    root = Node(None, None, None)
    top = Node(spec, target, root)
    root.children.append(top)
    cur = [top]

    def tracer(t, sp, scope):
        n = Node(sp, t, cur[0])
        cur[0].children.append(n)
        prev = cur[0]
        cur[0] = n
        try:
            return inner(t, sp, scope)
        except Exception as e:
            n.exc = e
            raise
        finally:
            cur[0] = prev
    try:
        glom.glom(target, spec, scope={glom.glom: tracer})
    except Exception as e:
        top.exc = e.__dict__.get('_GlomError__wrapped', e)
        return e, root
    return None, root


def fmtval(v, maxlen):
    try:
        s = bbrepr(v).replace("\\'", "'")
    except RecursionError:
        s = repr(v).replace("\\'", "'")        # a container that contains itself: the builtin repr marks the cycle
    return s


def shown_matches(shown, full):
    """a displayed value is the full repr or a prefix of it followed by '...' / '... (len=N)'"""
    if shown == full:
        return True
    m = re.match(r'^(.*?)\.\.\.( \(len=\d+\))?$', shown, re.S)
    if m:
        return full.startswith(m.group(1))
    return False


LINE = re.compile(r'^ (\|*)([-+\\X|]) (Target|Spec): (.*)$', re.S)


def parse_line(line):
    """(depth, tick, label, value) for Target/Spec lines, (depth, tick, 'error', text) otherwise; None if not a trace line"""
    if not line.startswith(' '):
        return None
    s = line[1:]
    j = 0
    while j < len(s) and s[j] == '|':
        j += 1
    if j >= len(s):
        return None
    c = s[j]
    if c in '\\X+-':
        depth, tick, rest = j, c, s[j + 1:]
    elif c == ' ' and j >= 1:
        depth, tick, rest = j - 1, '|', s[j:]
    else:
        return None
    if not rest.startswith(' '):
        return None
    rest = rest[1:]
    for label in ('Target', 'Spec'):
        if rest.startswith(label + ': '):
            return (depth, tick, label, rest[len(label) + 2:])
    return (depth, tick, 'error', rest)


def exc_line(e):
    return ''.join(traceback.format_exception_only(type(e), e))[:-1]


def chainlike(spec):
    return type(spec) in (tuple, Pipe, Switch)


def check_trace(err, root, target, where):
    wrapped = err.__dict__.get('_GlomError__wrapped', err)
    try:
        text = str(err)
        text2 = str(err)
    except Exception as e:
        raise Mismatch('str-raises', '%s: str(exc) raised %s: %s' % (where, type(e).__name__, e))
    if text != text2:
        raise Mismatch('str-unstable', '%s: str(exc) differs on repetition' % where)
    lines = text.split('\n')
    # P1 header
    if lines[0] != 'error raised while processing, details below.' or lines[1] != ' Target-spec trace (most recent last):':
        raise Mismatch('header', '%s: message starts with %r' % (where, lines[:2]))
    parsed = []
    for ln in lines[2:]:
        p = parse_line(ln)
        if p is None:
            break
        parsed.append(p)
    tail = lines[2 + len(parsed):]
    show = '\n'.join(lines)
    # P2 first entry is the root target
    if not parsed or parsed[0][2] != 'Target' or parsed[0][0] != 0 or not shown_matches(parsed[0][3], fmtval(target, 0)):
        raise Mismatch('root-target', '%s: first trace entry is not the root target:\n%s' % (where, show))
    # failing path: descend along children carrying the original error
    top = root.children[0]
    path = [top]
    node = top
    while True:
        nxt = [c for c in node.children if c.exc is wrapped]
        if not nxt:
            break
        node = nxt[-1]
        path.append(node)
    innermost = path[-1]
    if top.exc is None:
        raise HarnessBug('tracer saw no failure')
    # allowed spec texts
    allowed = {}

    def allow(n, why):
        allowed.setdefault(fmtval(n.spec, 0), why)
    for n in path:
        allow(n, 'path')
        for c in n.children:
            if c.exc is not None:
                for x in c.subtree():
                    allow(x, 'attempted branch')
            elif chainlike(n.spec):
                allow(c, 'completed chain step')
    # (children of the innermost failing spec that completed normally -- and whatever they recovered from on
    # their way -- had no part in the error: they are NOT allowed)
    spec_lines = [(i, p) for i, p in enumerate(parsed) if p[2] == 'Spec']
    for i, p in spec_lines:
        if not any(shown_matches(p[3], full) for full in allowed):
            # which node is it?
            culprit = [fmtval(x.spec, 0) for x in top.subtree() if shown_matches(p[3], fmtval(x.spec, 0))]
            raise Mismatch('stale-spec-line', '%s: trace line %r names a spec that is neither on the failing path nor an '
                           'attempted branch of it (%s):\n%s' % (where, lines[2 + i], 'evaluated elsewhere' if culprit else 'unknown', show))
    # P3: one Spec line per nesting level of the failing path, in order
    pos = -1
    positions = []
    ambiguous = False
    distinct_allowed = list(allowed)
    for n in path:
        full = fmtval(n.spec, 0)
        found = None
        for i, p in spec_lines:
            if i > pos and shown_matches(p[3], full):
                found = i
                if p[3] != full and sum(1 for a_ in distinct_allowed if shown_matches(p[3], a_)) > 1:
                    ambiguous = True      # a truncated line that could stand for several specs
                break
        if found is None:
            raise Mismatch('path-spec-missing', '%s: the spec %s of the failing path is not listed (in order):\n%s'
                           % (where, full[:120], show))
        pos = found
        positions.append(found)
    # P4: the innermost failing spec is shown with the target it received.  The target in force at a line is
    # the last Target line above it that belongs to the same branch or to an enclosing level: lines of earlier
    # sibling branches (and anything nested deeper) are skipped; each branch starts from its parent's target.
    idx = positions[-1]
    cur_d = parsed[idx][0]
    shown_target = None
    if parsed[idx][1] == '\\':
        cur_d -= 1
    for i in ([] if ambiguous else range(idx - 1, -1, -1)):
        d_, tick_, label_, val_ = parsed[i]
        if d_ > cur_d:
            continue
        if d_ < cur_d:
            cur_d = d_
        if label_ == 'Target':
            shown_target = val_
            break
        if tick_ == '\\':
            cur_d -= 1           # above the first line of this branch only enclosing levels count
    if not ambiguous and (shown_target is None or not shown_matches(shown_target, fmtval(innermost.target, 0))):
        # (skipped when a truncated Spec line could stand for several specs: its position is then unreliable)
        raise Mismatch('innermost-target', '%s: the innermost failing spec %s received %s but the trace shows target %r:\n%s'
                       % (where, fmtval(innermost.spec, 0)[:80], fmtval(innermost.target, 0)[:80], shown_target, show))
    # P3b: nesting depth.  A level is printed one bar deeper for every branch point above it on the failing path
    # (a branch point = a spec with two or more failed children, or one that is not its last child).
    def branch_point(n):
        failed_ = [c for c in n.children if c.exc is not None]
        return len(failed_) >= 2 or bool(failed_ and failed_ != [n.children[-1]])
    if not ambiguous:
        depth_ = 0
        for k_, n in enumerate(path):
            got_d = parsed[positions[k_]][0]
            if got_d != depth_:
                raise Mismatch('path-depth', '%s: the spec %s lies below %d branch point(s) of the failing path but is printed at '
                               'depth %d:\n%s' % (where, fmtval(n.spec, 0)[:80], depth_, got_d, show))
            if branch_point(n):
                depth_ += 1
    # P6: attempted branches of branch points on the path, with the errors that ended them
    for n in path:
        failed = [c for c in n.children if c.exc is not None]
        last = n.children[-1] if n.children else None
        is_branch_point = len(failed) >= 2 or (failed and failed != [last])
        if not is_branch_point:
            continue
        order = []
        for c in failed:
            full = fmtval(c.spec, 0)
            at = [i for i, p in spec_lines if shown_matches(p[3], full) and p[1] == '\\']
            # (truncated lines of different branches can read the same: take the first candidate after the previous branch)
            later = [i for i in at if not order or i > order[-1]]
            at = later or at
            if at:
                order.append(at[0])
            if c in path:
                continue            # the branch that really raised is followed by the path checks
            if not at:
                raise Mismatch('branch-missing', '%s: the attempted branch %s of %s (ended by %s) is not shown as a branch:\n%s'
                               % (where, full[:80], type(n.spec).__name__, exc_line(c.exc)[:80], show))
            # inside an abandoned branch the levels down to where ITS error was raised are listed in order
            inner, x_ = [c], c
            while True:
                nx_ = [y for y in x_.children if y.exc is c.exc]
                if not nx_:
                    break
                x_ = nx_[-1]
                inner.append(x_)
            pos_ = at[0] - 1
            for y in inner:
                fy = fmtval(y.spec, 0)
                hit = [i for i, p in spec_lines if i > pos_ and shown_matches(p[3], fy)]
                if not hit:
                    raise Mismatch('branch-inner-order', '%s: inside the abandoned branch %s the level %s is not listed (in order):\n%s'
                                   % (where, full[:60], fy[:60], show))
                pos_ = hit[0]
            want = exc_line(c.exc)
            if not any(p[2] == 'error' and ADDR.sub('', p[3]) == ADDR.sub('', want) and i > at[0] for i, p in enumerate(parsed)):
                raise Mismatch('branch-error-missing', '%s: the error that ended branch %s (%s) is not shown:\n%s'
                               % (where, full[:80], want[:100], show))
        if order != sorted(order):
            raise Mismatch('branch-order', '%s: the branches of %s are not listed in evaluation order:\n%s'
                           % (where, type(n.spec).__name__, show))
    # an error is printed at most once per nesting depth: the number of identical error lines at one depth
    # cannot exceed the number of distinct error objects with that text in the evaluation tree
    objs = {}
    for x in top.subtree():
        if x.exc is not None:
            objs.setdefault(ADDR.sub('', exc_line(x.exc)), set()).add(id(x.exc))
    counts = {}
    for p in parsed:
        if p[2] == 'error':
            key = (p[0], ADDR.sub('', p[3]))
            counts[key] = counts.get(key, 0) + 1
    for (d_, text_), c in counts.items():
        have = len(objs.get(text_, ()))
        if have and c > have:
            raise Mismatch('duplicate-error-line', '%s: the error line %r appears %d times at depth %d but only %d such error(s) '
                           'occurred:\n%s' % (where, text_[:100], c, d_, have, show))
        if not have:
            raise Mismatch('unknown-error-line', '%s: the error line %r matches no error that occurred:\n%s' % (where, text_[:100], show))
    # P5: the message ends with the original error
    want_last = exc_line(wrapped).split('\n')[-1]
    if tail and 'str() failed' in tail[-1]:
        raise Mismatch('final-error', '%s: the message of the original error cannot be rendered: %r' % (where, tail[-1]))
    if not tail or ADDR.sub('', tail[-1]) != ADDR.sub('', want_last):
        raise Mismatch('final-error', '%s: the message must end with %r, it ends with %r' % (where, want_last, tail[-1:] or parsed[-1:]))
    return parsed, path, wrapped


def trace_value(value, maxlen):
    s_ = bbrepr(value).replace("\\'", "'")
    if len(s_) > maxlen:
        try:
            suffix = '... (len=%s)' % len(value)
        except Exception:
            suffix = '...'
        s_ = s_[:maxlen - len(suffix)] + suffix
    return s_


def render_linear(path, wrapped, width=78):
    """the exact lines of a trace without branch points (rules R1-R4, R6 of DESIGN.md section 4 / C05):
    Target line iff the object differs BY IDENTITY from the previously shown one; completed steps of a chain
    before its failing step; a level's own error (when it is not the one leaving glom and not its child's)
    right after its Spec line"""
    lines = []
    shown = [object()]

    def entry(target, spec):
        if target is not shown[0]:
            pre = ' - Target: '
            lines.append(pre + trace_value(target, width - len(pre)))
        shown[0] = target
        pre = ' - Spec: '
        lines.append(pre + trace_value(spec, width - len(pre)))

    for i, n in enumerate(path):
        entry(n.target, n.spec)
        nxt = path[i + 1] if i + 1 < len(path) else None
        child_err = nxt.exc if nxt is not None else None
        if n.exc is not None and n.exc is not wrapped and n.exc is not child_err:
            lines.append(' - ' + exc_line(n.exc))
        if nxt is not None and chainlike(n.spec):
            for c in n.children:
                if c is nxt:
                    break
                entry(c.target, c.spec)
    return lines


def check(recipe, ctx):
    r = recipe['spec']
    spec = build(r)
    target = Named('root-target')
    err, root = trace_tree(spec, target)
    where = 'spec=%s' % ADDR.sub('', repr(spec))[:300]
    if err is None:
        raise HarnessBug('generated spec does not fail: %r' % (r,))
    # the message under test comes from an evaluation WITHOUT the tracer
    spec2 = build(r)
    try:
        glom.glom(target, spec2)
        raise HarnessBug('second evaluation did not fail')
    except HarnessBug:
        raise
    except Exception as e2:
        plain = e2
    if not isinstance(plain, GlomError):
        ctx.label('not-wrapped')
        return
    parsed, path, wrapped = check_trace(err, root, target, where)
    # a T expression that fails in argument position is the innermost spec that failed: it is listed
    for m_ in re.finditer(r"\['argfail', '[a-z-]+', (\d+)\]", repr(r)):
        want_ = "T['argnope%s']" % m_.group(1)
        if isinstance(wrapped, glom.PathAccessError) and want_ in repr(wrapped.path) and \
                not any(p_[2] == 'Spec' and p_[3] == want_ for p_ in parsed):
            raise Mismatch('path-spec-missing', '%s: the argument expression %s failed but has no Spec line of its own:\n%s'
                           % (where, want_, str(err)))
        ctx.label('fails-in-argument-position')
    # exact comparison for traces without branch points
    if all(p[0] == 0 and p[1] == '-' for p in parsed):
        failed_off_path = any(c.exc is not None and c not in path for n in path for c in n.children)
        if not failed_off_path:
            ctx.label('linear-exact')
            exp_lines = render_linear(path, wrapped)
            got_lines = str(err).split('\n')[2:2 + len(exp_lines)]
            if [ADDR.sub('', l) for l in got_lines] != [ADDR.sub('', l) for l in exp_lines]:
                raise Mismatch('linear-trace', '%s: expected the trace to start with\n%s\nbut it is\n%s'
                               % (where, '\n'.join(exp_lines), str(err)))
    # the untraced message has the same structure
    try:
        t_plain = str(plain)
    except Exception as e:
        raise Mismatch('str-raises', '%s: str(exc) raised %s: %s' % (where, type(e).__name__, e))
    a = [parse_line(l) for l in t_plain.split('\n')[2:]]
    a = [x for x in a[:len(parsed)]]
    if [(p[0], p[1], p[2]) if p else None for p in a] != [(p[0], p[1], p[2]) for p in parsed]:
        raise Mismatch('tracer-changes-trace', '%s: the trace differs with and without the evaluation tracer' % where)
    # widths
    scope = getattr(err, '_scope', None)
    if scope is not None:
        for w in (50, 60, 78, 110, 200):
            try:
                text = glom.core.format_target_spec_trace(scope, wrapped, width=w)
            except Exception as e:
                raise Mismatch('width', '%s: format_target_spec_trace(width=%d) raised %r' % (where, w, e))
            ls = text.split('\n')
            ps = [parse_line(l) for l in ls]
            if [(p[0], p[1], p[2]) if p else None for p in ps] != [(p[0], p[1], p[2]) for p in parsed]:
                raise Mismatch('width-structure', '%s: width %d changes the structure of the trace' % (where, w))
            for l, p in zip(ls, ps):
                if p and p[2] in ('Target', 'Spec') and len(l) > w:
                    raise Mismatch('width-overflow', '%s: width %d: line of %d characters: %r' % (where, w, len(l), l))
    depth = len(path)
    branchy = any(len([c for c in n.children if c.exc is not None]) >= 2 or
                  ([c for c in n.children if c.exc is not None] and [c for c in n.children if c.exc is not None] != [n.children[-1]])
                  for n in path)
    recovered = 'coalesce-default' in repr(r) or any(n.exc is None and any(x.exc is not None for x in n.subtree())
                                                      for n in root.children[0].subtree())
    ctx.label('depth-%d' % min(depth, 6))
    if "'cyclic'" in repr(r):
        ctx.label('target-contains-itself')
    if "'keyerror'" in repr(r) or "'oserror'" in repr(r):
        ctx.label('exception-with-own-str')
    if branchy:
        ctx.label('branch-point')
    if recovered:
        ctx.label('recovered-branch')
    if any(p[2] == 'Target' and p[3].endswith(')') and '... (len=' in p[3] or p[3].endswith('...') for p in parsed):
        ctx.label('truncated')
    ctx.nontrivial(depth >= 3 or branchy or recovered)
    ctx.outcome([ADDR.sub('', repr(spec))[:140], type(wrapped).__name__, depth])


# ---------------------------------------------------------------------------
# lazily evaluated sub-specs: Iter(sub) consumed by a LATER step of the chain.  The failing sub-spec is evaluated
# while the consumer runs, in a scope that hangs off the (already finished) Iter step.

class OkStep(object):
    """a chain step with a unique, address-free repr that passes its target on"""
    def __init__(self, n):
        self.n = n
        self.__name__ = 'step%d' % n

    def __call__(self, t):
        return t

    def __repr__(self):
        return 'step%d' % self.n


class Consumer(OkStep):
    def __call__(self, t):
        self.out = list(t)
        return self.out

    def __repr__(self):
        return 'consume%d' % self.n


def gen_lazy(draw):
    S_ = st.sampled_from
    return {'pre': draw(S_([0, 0, 1, 2, 3])), 'mid': draw(S_([0, 0, 1, 2, 3])), 'post': draw(S_([0, 1])),
            'fail': draw(S_(['path', 'tstep', 'glomerror', 'valueerror'])), 'failat': draw(S_([0, 0, 1])),
            'how': draw(S_(['iter', 'iter', 'map', 'filter'])), 'chain': draw(S_(['tuple', 'tuple', 'pipe'])),
            'wrap': draw(S_(['none', 'none', 'spec', 'auto', 'coalesce', 'dict', 'nested-chain'])),
            # 'after': every item passes; a step AFTER the consumer fails (the chain must have continued from the consumer)
            'mode': draw(S_(['lazy', 'lazy', 'after']))}


class FailAt(object):
    """sub-spec of the Iter: passes the items before position `at`, fails (in the planted way) on that one"""
    def __init__(self, kind, at):
        self.kind, self.at = kind, at
        self.__name__ = 'failat'

    def glomit(self, target, scope):
        if self.at < 0 or not target.name.endswith('_' + 'ab'[self.at]):
            return target
        if self.kind == 'path':
            return scope[glom.glom](target, 'missing_lazy', scope)
        if self.kind == 'tstep':
            return scope[glom.glom](target, T['nope_lazy'], scope)
        if self.kind == 'glomerror':
            raise GlomError('lazy refuses')
        raise ValueError('lazy fails')

    def __repr__(self):
        return 'FailAt(%r, %d)' % (self.kind, self.at)


def build_lazy(r):
    after = r.get('mode') == 'after'
    sub = FailAt(r['fail'], -1 if after else r['failat'])
    it = {'iter': lambda: Iter(sub), 'map': lambda: Iter().map(sub), 'filter': lambda: Iter().filter(sub)}[r['how']]()
    steps = [OkStep(i) for i in range(r['pre'])] + [Probe(77, 'list'), it] + [OkStep(10 + i) for i in range(r['mid'])] + \
        [Consumer(20)] + [OkStep(30 + i) for i in range(r['post'])]
    if after:
        steps.append('missing_after' if r['fail'] in ('path', 'glomerror') else T['nope_after'])
    chain = tuple(steps) if r['chain'] == 'tuple' else Pipe(*steps)
    w = r['wrap']
    full = {'none': lambda: chain, 'spec': lambda: Spec(chain), 'auto': lambda: Auto(chain),
            'coalesce': lambda: Coalesce(chain, 'missing_alt'), 'dict': lambda: {'k': chain},
            'nested-chain': lambda: (OkStep(40), chain)}[w]()
    return full, chain, steps, it, sub


def check_lazy(recipe, ctx):
    full, chain, steps, it, sub = build_lazy(recipe)
    target = Named('root-target')
    where = 'spec=%s' % ADDR.sub('', repr(full))[:300]
    try:
        glom.glom(target, full)
        raise HarnessBug('lazy spec does not fail')
    except HarnessBug:
        raise
    except GlomError as e:
        err = e
    except Exception as e:
        ctx.label('not-wrapped')
        return
    wrapped = err.__dict__.get('_GlomError__wrapped', err)
    try:
        text = str(err)
    except Exception as e:
        raise Mismatch('str-raises', '%s: str(exc) raised %s: %s' % (where, type(e).__name__, e))
    lines = text.split('\n')
    show = text
    if lines[0] != 'error raised while processing, details below.' or lines[1] != ' Target-spec trace (most recent last):':
        raise Mismatch('header', '%s: message starts with %r' % (where, lines[:2]))
    parsed = []
    for ln in lines[2:]:
        p_ = parse_line(ln)
        if p_ is None:
            break
        parsed.append(p_)
    tail = lines[2 + len(parsed):]
    if not parsed or parsed[0][2] != 'Target' or parsed[0][3] != 'root-target':
        raise Mismatch('root-target', '%s: first trace entry is not the root target:\n%s' % (where, show))
    spec_lines = [(i, p_[3]) for i, p_ in enumerate(parsed) if p_[2] == 'Spec']

    def at(spec_obj, must=True):
        full_ = fmtval(spec_obj, 0)
        hits = [i for i, shown in spec_lines if shown_matches(shown, full_)]
        if len(hits) > 1:
            raise Mismatch('lazy-duplicate-line', '%s: the spec %s is listed %d times:\n%s' % (where, full_[:60], len(hits), show))
        if not hits and must:
            raise Mismatch('path-spec-missing', '%s: the spec %s of the failing path is not listed:\n%s' % (where, full_[:80], show))
        return hits[0] if hits else None
    n_it = steps.index(it)
    n_cons = n_it + recipe['mid'] + 1
    if recipe.get('mode') == 'after':
        order = [at(chain)] + [at(x) for x in steps]
        if recipe['wrap'] not in ('none', 'nested-chain'):
            order.insert(0, at(full))
        if order != sorted(order):
            raise Mismatch('lazy-order', '%s: the steps of the chain are not listed in order:\n%s' % (where, show))
        if at(sub, must=False) is not None:
            raise Mismatch('stale-spec-line', '%s: the sub-spec of the Iter completed for every item (while the consumer ran) but is '
                           'listed among the steps of the chain:\n%s' % (where, show))
        above = [p_[3] for p_ in parsed[:order[-1]] if p_[2] == 'Target']
        received = fmtval(steps[n_cons].out, 0)       # ([] for filter: the items are falsy)
        if not above or above[-1] != received:
            raise Mismatch('innermost-target', '%s: the failing step received %s but the target shown above it is %r:\n%s'
                           % (where, received, above[-1] if above else None, show))
        # (+ the second alternative of the Coalesce wrapper / the outer chain and its first step)
        if len(spec_lines) != len(order) + {'coalesce': 1, 'nested-chain': 2}.get(recipe['wrap'], 0):
            raise Mismatch('stale-spec-line', '%s: %d Spec lines for %d specs on the failing path:\n%s' % (where, len(spec_lines), len(order), show))
        ctx.label('fails-after-consumer')
        ctx.label('lazy-' + recipe['how'])
        ctx.nontrivial(True)
        ctx.outcome([ADDR.sub('', repr(full))[:140], type(wrapped).__name__])
        return
    evaluated = steps[:n_cons + 1]
    never = steps[n_cons + 1:]
    order_a = [at(chain)] + [at(x) for x in steps[:n_it + 1]]
    if recipe['wrap'] != 'none' and recipe['wrap'] != 'nested-chain':
        order_a.insert(0, at(full))
    inner = [x for x in ([sub] if recipe['fail'] in ('glomerror', 'valueerror') else [sub, 'missing_lazy' if recipe['fail'] == 'path' else T['nope_lazy']])]
    order_a += [at(x) for x in inner]
    if order_a != sorted(order_a):
        raise Mismatch('lazy-order', '%s: root -> chain -> steps -> Iter -> sub-spec are not listed in this order:\n%s' % (where, show))
    order_b = [at(it)] + [at(x) for x in steps[n_it + 1:n_cons + 1]]
    if order_b != sorted(order_b):
        raise Mismatch('lazy-order', '%s: Iter -> later steps -> consumer are not listed in this order:\n%s' % (where, show))
    for x in never:
        if at(x, must=False) is not None:
            raise Mismatch('stale-spec-line', '%s: the step %r after the failing consumer was never evaluated but is listed:\n%s' % (where, x, show))
    # the innermost failing spec is shown with the item it received
    idx = at(inner[-1])
    item = 'item77_' + 'ab'[recipe['failat']]
    above = [p_[3] for p_ in parsed[:idx] if p_[2] == 'Target']
    if not above or above[-1] != item:
        raise Mismatch('innermost-target', '%s: the failing sub-spec received %s but the target shown above it is %r:\n%s'
                       % (where, item, above[-1] if above else None, show))
    if not tail or ADDR.sub('', '\n'.join(tail)).rstrip('\n').split('\n')[-len(exc_line(wrapped).split('\n')):] != ADDR.sub('', exc_line(wrapped)).split('\n'):
        raise Mismatch('final-line', '%s: the message does not end with the original error %s:\n%s' % (where, exc_line(wrapped)[:80], show))
    if len(spec_lines) > len(evaluated) + 6:
        raise Mismatch('lazy-duplicate-line', '%s: %d Spec lines for %d evaluated specs:\n%s' % (where, len(spec_lines), len(evaluated) + 3, show))
    ctx.label('lazy-' + recipe['how'])
    ctx.label('wrap-' + recipe['wrap'])
    if recipe['mid']:
        ctx.label('steps-between')
    ctx.nontrivial(True)
    ctx.outcome([ADDR.sub('', repr(full))[:140], type(wrapped).__name__])



# ---------------------------------------------------------------------------
# an Iter whose stream is consumed by the ENCLOSING spec (not by a later chain step): Invoke / Call arguments, Fold

class _ConsumeAll(object):
    """list() with a short, address-free repr (truncated trace lines are compared by prefix)"""
    __name__ = 'consume_all'

    def __call__(self, it):
        return list(it)

    def __repr__(self):
        return 'consume_all'


consume_all = _ConsumeAll()


def gen_enclosed(draw):
    S_ = st.sampled_from
    return {'pre': draw(S_([0, 1, 2])), 'fail': draw(S_(['path', 'tstep', 'glomerror', 'valueerror'])), 'failat': draw(S_([0, 1])),
            'how': draw(S_(['iter', 'iter', 'map'])), 'enclose': draw(S_(['invoke', 'call', 'fold', 'invoke-in-dict'])),
            'post': draw(S_([0, 1]))}


def check_enclosed(recipe, ctx):
    from glom import Fold
    sub = FailAt(recipe['fail'], recipe['failat'])
    it = Iter(sub) if recipe['how'] == 'iter' else Iter().map(sub)
    enc = {'invoke': lambda: Invoke(consume_all).specs(it), 'call': lambda: Call(consume_all, args=(it,)),
           'fold': lambda: Fold(it, list, op=lambda acc, v: acc + [v]),
           'invoke-in-dict': lambda: {'k': Invoke(consume_all).specs(it)}}[recipe['enclose']]()
    steps = [OkStep(i) for i in range(recipe['pre'])] + [Probe(77, 'list'), enc] + [OkStep(30 + i) for i in range(recipe['post'])]
    full = tuple(steps)
    target = Named('root-target')
    where = 'spec=%s' % ADDR.sub('', repr(full))[:300]
    try:
        glom.glom(target, full)
        raise HarnessBug('enclosed lazy spec does not fail')
    except HarnessBug:
        raise
    except GlomError as e:
        err = e
    except Exception:
        ctx.label('not-wrapped')
        return
    wrapped = err.__dict__.get('_GlomError__wrapped', err)
    text = str(err)
    lines = text.split('\n')
    parsed = []
    for ln in lines[2:]:
        p_ = parse_line(ln)
        if p_ is None:
            break
        parsed.append(p_)
    spec_lines = [(i, p_[3]) for i, p_ in enumerate(parsed) if p_[2] == 'Spec']

    def at(spec_obj):
        full_ = ADDR.sub('', fmtval(spec_obj, 0))
        hits = [i for i, shown in spec_lines if shown_matches(ADDR.sub('', shown), full_)]
        if len(hits) > 1:
            raise Mismatch('lazy-duplicate-line', '%s: the spec %s is listed %d times:\n%s' % (where, full_[:60], len(hits), text))
        if not hits:
            raise Mismatch('path-spec-missing', '%s: the spec %s of the failing path is not listed:\n%s' % (where, full_[:80], text))
        return hits[0]
    inner = [sub] if recipe['fail'] in ('glomerror', 'valueerror') else [sub, 'missing_lazy' if recipe['fail'] == 'path' else T['nope_lazy']]
    path_specs = [full] + steps[:recipe['pre'] + 2]
    if recipe['enclose'] == 'invoke-in-dict':
        path_specs.append(enc['k'])
    path_specs += [it] + inner
    order = [at(x) for x in path_specs]
    if order != sorted(order):
        raise Mismatch('lazy-order', '%s: chain -> steps -> enclosing spec -> Iter -> sub-spec are not listed in this order:\n%s' % (where, text))
    for x in steps[recipe['pre'] + 2:]:
        full_ = fmtval(x, 0)
        if any(shown_matches(shown, full_) for _, shown in spec_lines):
            raise Mismatch('stale-spec-line', '%s: the step %r after the failing one was never evaluated but is listed:\n%s' % (where, x, text))
    item = 'item77_' + 'ab'[recipe['failat']]
    above = [p_[3] for p_ in parsed[:order[-1]] if p_[2] == 'Target']
    if not above or above[-1] != item:
        raise Mismatch('innermost-target', '%s: the failing sub-spec received %s but the target shown above it is %r:\n%s'
                       % (where, item, above[-1] if above else None, text))
    tail = lines[2 + len(parsed):]
    want = ADDR.sub('', exc_line(wrapped)).split('\n')
    if ADDR.sub('', '\n'.join(tail)).rstrip('\n').split('\n')[-len(want):] != want:
        raise Mismatch('final-line', '%s: the message does not end with the original error:\n%s' % (where, text))
    ctx.label('enclose-' + recipe['enclose'])
    ctx.nontrivial(True)
    ctx.outcome([ADDR.sub('', repr(full))[:140], type(wrapped).__name__])



# ---------------------------------------------------------------------------
# alternatives of a Match list / dict pattern: an item that failed an earlier alternative and then matched a later
# one is done with; only the alternatives of the item that was finally rejected belong to the error

class NameEnds(object):
    """predicate with an address-free repr: the name of a Named item ends with the given letter"""
    def __init__(self, letter):
        self.letter = letter
        self.__name__ = 'ends_' + letter

    def __call__(self, t):
        return getattr(t, 'name', str(t)).endswith(self.letter)

    def __repr__(self):
        return 'ends_' + self.letter


def gen_matchalts(draw):
    S_ = st.sampled_from
    return {'shape': draw(S_(['list', 'list', 'dict'])), 'good_before': draw(S_([1, 1, 2, 3])), 'wrap': draw(S_(['none', 'coalesce', 'tuple'])),
            'first_alt': draw(S_(['literal', 'type']))}


def check_matchalts(recipe, ctx):
    from glom import Regex
    n_good = recipe['good_before']
    good = ['good%d_a' % i for i in range(n_good)]
    if recipe['shape'] == 'list':
        target = [Named(g) for g in good] + [Named('bad_b')]
        first = 'never-equal' if recipe['first_alt'] == 'literal' else int
        pattern = [first, NameEnds('a')]
        stale_values = list(good)
    else:
        target = dict((g, 1) for g in good)
        target['bad_b'] = 2
        pattern = {Regex('zzz.*'): int, str: M == 1}
        stale_values = ["'%s'" % g for g in good]
    spec = Match(pattern)
    if recipe['wrap'] == 'coalesce':
        spec = Coalesce(spec, 'missing_alt')
    elif recipe['wrap'] == 'tuple':
        spec = (T, spec)
    where = 'glom(%r, %r)' % (target, spec)
    try:
        glom.glom(target, spec)
        raise HarnessBug('match pattern does not fail')
    except HarnessBug:
        raise
    except GlomError as e:
        text = str(e)
    lines = text.split('\n')
    parsed = [p_ for p_ in (parse_line(l) for l in lines[2:]) if p_ is not None]
    targets = [p_[3] for p_ in parsed if p_[2] == 'Target']
    for sv in stale_values:
        if sv in targets:
            raise Mismatch('stale-spec-line', '%s: the item %s matched (after failing an earlier alternative) and has no part in the '
                           'error, but the trace lists it with the alternative it failed:\n%s' % (where, sv, text))
    if not any(('bad_b' in t_) for t_ in targets):
        raise Mismatch('innermost-target', '%s: the rejected item is not shown:\n%s' % (where, text))
    ctx.label('shape-' + recipe['shape'], 'wrap-' + recipe['wrap'])
    ctx.nontrivial(True)
    ctx.outcome([recipe['shape'], n_good])



def is_call_args_lazy(recipe, mm):
    """known finding F36: Call(f, args=(Iter(sub),)) - the arguments are evaluated in a finished, unchained scope between
    the Call and the Iter, so a failure raised while f consumes the stream is never recorded on the way up"""
    return recipe.get('enclose') == 'call' and mm.kind == 'path-spec-missing'


CLASSIFIERS = {'F36-call-args-lazy': is_call_args_lazy}

SUBS = [
    Sub('trace', check, gen=gen, quick=3000, thorough=10000,
        floors={'branch-point': 0.1, 'recovered-branch': 0.1, 'depth-3': 0.05, 'linear-exact': 0.1, 'target-contains-itself': 0.01, 'exception-with-own-str': 0.03, 'fails-in-argument-position': 0.02}),
    Sub('lazy', check_lazy, gen=gen_lazy, quick=800, thorough=3000, floors={'steps-between': 0.2, 'lazy-map': 0.05, 'fails-after-consumer': 0.15}),
    Sub('matchalts', check_matchalts, gen=gen_matchalts, quick=300, thorough=1000),
    Sub('enclosed', check_enclosed, gen=gen_enclosed, quick=400, thorough=1500),
    fuzzrun.fuzz_sub('fuzz-trace', 'hyp:c05:trace', runs=30000, campaigns=4, replay_sub='trace'),
]
