"""C05 — Error messages carry a faithful target-spec trace down to the failing spec.

Generator: spec shapes with exactly one *terminal* failure planted at a chosen position (missing path
segment, failing T step, probe raising GlomError / ValueError, failing Check, failing Match, lookup of
an unbound scope name) and optional *recovered* branches before it (Coalesce / Or / Switch / Not
alternatives that fail and are caught): linear nestings (dict, list, Spec, Auto, Call / Invoke
arguments, S(k=..)), chains (tuple, Pipe), branches (Coalesce, Or, And, Not, Switch) and branches
inside chains inside branches; every leaf and every intermediate target has a unique, address-free
repr, some longer than the width, some non-ASCII, some spanning several lines; error messages of one line and of several.

Oracle: the evaluation tree (what was really evaluated, on which target, with which outcome) is
recorded through the documented scope[glom] extension point; the message is parsed by its `|` depth
markers and checked against the tree with rules taken from the statement (see check_trace).
"""
import re
import traceback

import os

from hypothesis import strategies as st

import glom
import glom.core
from glom import (T, S, Val, Spec, Auto, Coalesce, Pipe, Call, Invoke, Check, Match, Switch, And, Or, Not, M,
                  GlomError)
from glom.core import bbrepr
from glom import Iter

from .. import fuzzrun
from ..runner import Sub, Mismatch, HarnessBug

PROPERTY = 'C05'
RULE = ('spec trees of depth <= 5 with one terminal failure at a generated position and recovered failing branches before it; '
        'every spec leaf and every target has a unique repr. Non-trivial = depth >= 3, or >= 1 branch point on the failing path, '
        'or a recovered branch before the failure.')
ASSUMPTIONS = [
    'the evaluation tree recorded through scope[glom] (the extension point Inspect uses) is the ground truth of what was evaluated',
    'rules checked: header; first entry = root target; one Spec line per nesting level of the failing path, in order; the innermost '
    'failing spec is shown with the target it received; attempted branches of branch points on the path appear with their errors; '
    'no Spec line names a spec outside the failing path, its completed chain steps, its attempted branches or the innermost spec\'s '
    'own subtree; the message ends with the original error; same structure and no over-long line at widths 50..200',
    'truncated values must be a prefix of the full repr followed by "..." / "... (len=N)"',
    'entries: a repr or an error message with newlines makes ONE trace entry of several physical lines; only the first carries the '
    'depth markers, the others are the text of the value / message and must follow verbatim (split_entries: the multi-line texts that '
    'exist in an evaluation - reprs of its specs and targets, traceback.format_exception_only of its errors - are taken from the '
    'evaluation tree; generated texts never start a continuation line with a marker column). All marker rules read the first line of '
    'every entry; an X written into a continuation line is an altered message (kind entry-text-altered)',
    'lazy, mode translated: when the consuming step answers the lazily raised failure with another error (Coalesce -> CoalesceError, Or -> '
    'the MatchError of its last alternative, a callable with except X: raise Y [from X]) the lazily failing spec, the item it received '
    'and its error are still listed, each level once, followed by the consuming step and what it evaluated',
    'branch markers (all sub-checks): a branch opens one level below the line above it (or right below the line that closed its '
    'elder sibling) with a backslash in its own column, X stands only on the last line of the branch whose column it is in, a branch '
    'followed by another one is closed by X; a closed branch of ONE line has a single column for both marks and shows X (accepted, '
    'counted as one-line-closed-branch)',
    'lazy / enclosed: failures that are raised eagerly (First key, an item pulled by windowed() inside the Iter step) and chains whose '
    'lazily raised failure was recovered from are compared with the exact list of Spec lines and must not be drawn as branching '
    'specs; an Iter in whose own evaluation an item completed before the failing one (windowed(3), second item) is drawn by glom with '
    'the failing item as a single branch: the mark of the Iter itself is not asserted in that case',
]
ADDR = re.compile(r' at 0x[0-9a-f]+')


class Named(object):
    """target value with a unique, address-free repr"""
    def __init__(self, name, items=None):
        self.name = name
        self.items = items

    def __repr__(self):
        return self.name

    def __iter__(self):
        return iter(self.items or ())

    def __len__(self):
        return len(self.items or ())

    def __eq__(self, other):
        # equal-but-distinct targets exist on purpose: the trace must go by identity, not equality
        return isinstance(other, Named) and other.name == self.name

    def __ne__(self, other):
        return not self == other

    def __hash__(self):
        return hash(self.name)


ML_MESSAGE = '\nsecond line of the message of probe%d\n  third line, indented'


class Probe(object):
    """behaviours ending in '-ml' raise an error whose MESSAGE spans several lines; behaviours ending in '-mlrepr' belong to
    a probe whose own repr (its Spec line) spans several lines; 'multiline' / 'list-ml' return targets whose repr does"""
    def __init__(self, n, behaviour):
        self.n, self.behaviour = n, behaviour
        self.mlrepr = behaviour.endswith('-mlrepr')
        if self.mlrepr:
            self.behaviour = behaviour[:-len('-mlrepr')]
        self.__name__ = 'probe%d' % n

    def __call__(self, t):
        b = self.behaviour
        if b == 'glomerror':
            raise GlomError('probe%d refuses' % self.n)
        if b == 'valueerror':
            raise ValueError('probe%d fails' % self.n)
        if b == 'glomerror-ml':
            raise GlomError('probe%d refuses' % self.n + ML_MESSAGE % self.n)
        if b == 'valueerror-ml':
            raise ValueError('probe%d fails' % self.n + ML_MESSAGE % self.n)
        if b == 'keyerror':
            raise KeyError('probe%d key' % self.n)              # KeyError has its own __str__
        if b == 'oserror':
            raise FileNotFoundError(2, 'probe%d file' % self.n)  # so has OSError
        if b == 'cyclic':
            lst = [Named('c%d' % self.n)]
            lst.append(lst)
            return lst
        if b == 'list':
            return Named('L%d' % self.n, [Named('item%d_a' % self.n), Named('item%d_b' % self.n)])
        if b == 'list-ml':
            return Named('L%d' % self.n, [Named(ML_ITEM % (self.n, x)) for x in 'ab'])
        if b == 'multiline':
            return Named('t%d line one\nt%d line two\n  t%d line three' % (self.n, self.n, self.n))
        if b == 'long':
            return Named('long%d_' % self.n + 'x' * 90)
        if b == 'unicode':
            return Named('tärget%d_é' % self.n)
        if b == 'clone':
            return Named(getattr(t, 'name', 'anon'), getattr(t, 'items', None))     # equal to t, not t
        return Named('t%d' % self.n)

    def __repr__(self):
        return 'probe%d(\n  second line of the repr of probe%d)' % (self.n, self.n) if self.mlrepr else 'probe%d' % self.n


ML_ITEM = 'item%d\n  second line of the item_%s'


class Factory(object):
    def __init__(self, value):
        self.value = value

    def __call__(self):
        return self.value

    def __repr__(self):
        return 'Factory(%r)' % (self.value,)


def skip_all(v):
    return True


class _Ident(object):
    """pass-through callable with a short, address-free repr"""
    __name__ = 'ident'

    def __call__(self, *a, **kw):
        return a[-1] if a else None

    def __repr__(self):
        return 'ident'


ident = _Ident()


# ---------------------------------------------------------------------------
# generation

def gen_spec(draw, d, must_fail, counter):
    S_ = st.sampled_from
    counter[0] += 1
    n = counter[0]
    kinds = ['leaf'] if d <= 0 else ['leaf', 'tuple', 'tuple', 'pipe', 'dict', 'list', 'coalesce', 'coalesce', 'or', 'and',
                                     'not', 'switch', 'switch', 'auto', 'spec', 'call', 'invoke', 'sbind', 'recovered',
                                     'mlbranch', 'mlbranch'] + \
        (['coalesce-skip'] if must_fail else [])
    k = draw(S_(kinds))
    if k == 'leaf':
        if must_fail:
            if d > 0 and draw(S_(range(6))) == 0:
                # a spec that recovers through a CONSTANT default, inside a spec that then fails on its own
                # without evaluating anything else (Check after its sub-spec, a T index that is missing)
                return [draw(S_(['checkrec', 'tindexrec'])), n, [['fail', 'path', n + 500], ['fail', 'tstep', n + 501]][:draw(st.integers(1, 2))],
                        draw(S_(['const', 'factory', 'spec']))]
            if draw(S_(range(8))) == 0:
                # the failing spec is a bare T expression in ARGUMENT position (a default, a computed key, a Call argument)
                return ['argfail', draw(S_(['coalesce-default', 'tkey', 'call'])), n]
            # ('-ml': the error MESSAGE spans several lines; '-mlrepr': the repr of the failing spec does; 'matchalts-ml': a
            # target with a repr of several lines is rejected by every alternative of Match(Or(..)), with that repr in the messages)
            return ['fail', draw(S_(['path', 'tstep', 'glomerror', 'valueerror', 'check', 'match', 'sunbound', 'path', 'tstep', 'keyerror', 'oserror',
                                     'glomerror-ml', 'valueerror-ml', 'glomerror-mlrepr', 'matchalts-ml'])), n]
        return ['ok', draw(S_(['plain', 'plain', 'plain', 'long', 'unicode', 'clone'] * 4 + ['cyclic'] +
                              ['multiline', 'multiline', 'plain-mlrepr', 'plain-mlrepr'])), n]
    sub = lambda mf: gen_spec(draw, d - 1, mf, counter)
    if k in ('tuple', 'pipe'):
        m = draw(st.integers(1, 3))
        steps = [sub(False) for _ in range(m)]
        if must_fail:
            steps.insert(draw(st.integers(0, len(steps))), sub(True))
            # steps after the failing one are never evaluated; keep some to check they do not show up
        return [k, steps]
    if k == 'dict':
        m = draw(st.integers(1, 3))
        vals = [sub(False) for _ in range(m)]
        if must_fail:
            vals.insert(draw(st.integers(0, len(vals))), sub(True))
        return ['dict', vals]
    if k == 'list':
        return ['list', n, sub(must_fail)]
    if k in ('coalesce', 'or'):
        # (the number of abandoned alternatives has no limit in the code: three and four are drawn too -- a bookkeeping
        # slip that forgives only the first few shows from the third on)
        m = draw(S_([0, 1, 2, 0, 1, 2, 3, 4]))
        alts = [sub(True) for _ in range(m)]
        alts.append(sub(must_fail))
        if not must_fail and draw(st.booleans()):
            alts.append(sub(False))          # never evaluated
        return [k, alts]
    if k == 'coalesce-skip':
        # every alternative is either failing or yields a value that skip= rejects: the Coalesce itself raises,
        # after abandoned branches AND alternatives that ran without raising
        alts = [sub(draw(st.booleans())) for _ in range(draw(st.integers(1, 3)))]
        if not any(a[0] != 'fail' or True for a in alts):
            alts.append(sub(False))
        return ['coalesce-skip', alts]
    if k == 'and':
        m = draw(st.integers(0, 2))
        kids = [sub(False) for _ in range(m)]
        kids.append(sub(must_fail))
        return ['and', kids]
    if k == 'not':
        return ['not', sub(not must_fail)]
    if k == 'switch':
        cases = [[sub(True), ['ok', 'plain', 0]] for _ in range(draw(S_([0, 1, 2, 0, 1, 2, 3, 4])))]
        if must_fail and draw(st.booleans()):
            cases.append([sub(False), sub(True)])            # key passes, value fails
        elif must_fail:
            cases.append([sub(True), ['ok', 'plain', 0]])     # no case matches
        else:
            cases.append([sub(False), sub(False)])
        return ['switch', cases]
    if k in ('auto', 'spec', 'call', 'invoke', 'sbind'):
        return [k, sub(must_fail)]
    if k == 'mlbranch':
        # a branching spec whose first alternatives fail with an error MESSAGE of several lines and are abandoned: the line
        # that closes such a branch (X) is the FIRST physical line of a multi-line entry.  Coalesce(skip_exc=) abandons
        # ValueErrors too
        how = draw(S_(['coalesce', 'or', 'switch', 'coalesce-skipexc', 'coalesce-skipexc']))
        heads = []
        for _ in range(draw(S_([1, 1, 2]))):
            counter[0] += 1
            heads.append(['fail', draw(S_(['glomerror-ml', 'valueerror-ml'])) if how == 'coalesce-skipexc' else 'glomerror-ml', counter[0]])
        if how != 'switch':
            return [how, heads + [sub(must_fail)]]
        cases = [[h, ['ok', 'plain', 0]] for h in heads]
        if must_fail:
            cases.append([sub(False), sub(True)] if draw(st.booleans()) else [sub(True), ['ok', 'plain', 0]])
        else:
            cases.append([sub(False), sub(False)])
        return ['switch', cases]
    # recovered: a step that fails inside and recovers, followed by the rest of the chain
    rec = ['coalesce', [sub(True) for _ in range(draw(S_([1, 2, 1, 2, 3, 4])))] + [sub(False)]] if draw(st.booleans()) \
        else ['coalesce-default', [sub(True) for _ in range(draw(S_([1, 2, 1, 2, 3, 4])))]]
    return ['tuple', [rec, sub(must_fail)]]


def gen(draw):
    counter = [0]
    return {'spec': gen_spec(draw, draw(st.sampled_from([2, 3, 3, 4, 5])), True, counter)}


def build(r):
    k = r[0]
    if k == 'ok':
        return Probe(r[2], r[1])
    if k == 'fail':
        kind, n = r[1], r[2]
        if kind == 'path':
            return 'missing%d' % n
        if kind == 'tstep':
            return T['nope%d' % n]
        if kind in ('glomerror', 'valueerror', 'keyerror', 'oserror', 'glomerror-ml', 'valueerror-ml', 'glomerror-mlrepr'):
            return Probe(n, kind)
        if kind == 'matchalts-ml':
            return (Probe(n + 700, 'multiline'), Match(Or('expected%d_a' % n, 'expected%d_b' % n, 'expected%d_c' % n)))
        if kind == 'check':
            return Check(type=(int, type('Marker%d' % n, (), {})))
        if kind == 'match':
            return Match('expected%d' % n)
        return getattr(S, 'unbound%d' % n)
    if k == 'argfail':
        bad = T['argnope%d' % r[2]]
        if r[1] == 'coalesce-default':
            return Coalesce('missing%d' % r[2], default=bad)
        if r[1] == 'tkey':
            return T[bad]
        return Call(ident, args=(bad,))
    if k in ('checkrec', 'tindexrec'):
        how = r[3] if len(r) > 3 else 'const'
        text = ('const%d' if k == 'checkrec' else 'nokey%d') % r[1]
        kw = {'default': text} if how == 'const' else {'default': Val(text)} if how == 'spec' else {'default_factory': Factory(text)}
        inner = Coalesce(*[build(x) for x in r[2]], **kw)
        return Check(inner, type=type('Marker%d' % r[1], (), {})) if k == 'checkrec' else T[inner]
    if k == 'tuple':
        return tuple(build(x) for x in r[1])
    if k == 'pipe':
        return Pipe(*[build(x) for x in r[1]])
    if k == 'dict':
        return dict(('f%d' % i, build(x)) for i, x in enumerate(r[1]))
    if k == 'list':
        return (Probe(r[1] + 1000, 'list'), [build(r[2])])
    if k == 'coalesce':
        return Coalesce(*[build(x) for x in r[1]])
    if k == 'coalesce-skip':
        return Coalesce(*[build(x) for x in r[1]], skip=skip_all)
    if k == 'coalesce-skipexc':
        return Coalesce(*[build(x) for x in r[1]], skip_exc=(ValueError, GlomError))
    if k == 'coalesce-default':
        return Coalesce(*[build(x) for x in r[1]], default=Val('recovered'))
    if k == 'or':
        return Or(*[build(x) for x in r[1]])
    if k == 'and':
        return And(*[build(x) for x in r[1]])
    if k == 'not':
        return Not(build(r[1]))
    if k == 'switch':
        return Switch([(build(a), build(b)) for a, b in r[1]])
    if k == 'auto':
        return Auto(build(r[1]))
    if k == 'spec':
        return Spec(build(r[1]))
    if k == 'call':
        return Call(ident, args=(Spec(build(r[1])),))
    if k == 'invoke':
        return Invoke(ident).specs(build(r[1]))
    if k == 'sbind':
        return (S(bound=Spec(build(r[1]))), T)
    raise ValueError(r)


# ---------------------------------------------------------------------------
# evaluation tree via the scope[glom] extension point

class Node(object):
    def __init__(self, spec, target, parent):
        self.spec, self.target, self.parent = spec, target, parent
        self.children = []
        self.exc = None

    def subtree(self):
        out = [self]
        for c in self.children:
            out.extend(c.subtree())
        return out


def trace_tree(spec, target):
    inner = glom.core._DEFAULT_SCOPE[glom.glom]
    # glom() evaluates the root spec itself directly; the extension point sees every evaluation below it
    root = Node(None, None, None)
    top = Node(spec, target, root)
    root.children.append(top)
    cur = [top]

    def tracer(t, sp, scope):
        n = Node(sp, t, cur[0])
        cur[0].children.append(n)
        prev = cur[0]
        cur[0] = n
        try:
            return inner(t, sp, scope)
        except Exception as e:
            n.exc = e
            raise
        finally:
            cur[0] = prev
    try:
        glom.glom(target, spec, scope={glom.glom: tracer})
    except Exception as e:
        top.exc = e.__dict__.get('_GlomError__wrapped', e)
        return e, root
    return None, root


def fmtval(v, maxlen):
    try:
        s = bbrepr(v).replace("\\'", "'")
    except RecursionError:
        s = repr(v).replace("\\'", "'")        # a container that contains itself: the builtin repr marks the cycle
    return s


def shown_matches(shown, full):
    """a displayed value is the full repr or a prefix of it followed by '...' / '... (len=N)'"""
    if shown == full:
        return True
    m = re.match(r'^(.*?)\.\.\.( \(len=\d+\))?$', shown, re.S)
    if m:
        return full.startswith(m.group(1))
    return False


MARKS = re.compile(r'^ ([|\\X+-]+) ')


def parse_line(line):
    """(depth, tick, label, value) for Target/Spec lines, (depth, tick, 'error', text) otherwise; None if not a trace line.
    A line at branch depth d carries d + 1 marker characters: one column per enclosing branch level, its own mark last"""
    m = MARKS.match(line)
    if m is None:
        return None
    marks, rest = m.group(1), line[m.end():]
    depth, tick = len(marks) - 1, marks[-1]
    for label in ('Target', 'Spec'):
        if rest.startswith(label + ': '):
            return (depth, tick, label, rest[len(label) + 2:])
    return (depth, tick, 'error', rest)


def known_texts(values):
    """the texts of several lines among `values` (full reprs of the specs and targets of an evaluation, the
    `type: message` lines of its errors), each once"""
    out = []
    for v in values:
        if '\n' in v and v not in out:
            out.append(v)
    return out


def tree_texts(root):
    """the multi-line texts of an evaluation: reprs of the specs and targets, `type: message` of the errors"""
    vals, seen = [], set()
    for x in root.children[0].subtree():
        for o in (x.spec, x.target):
            if id(o) not in seen:           # (the same target is handed down many levels)
                seen.add(id(o))
                # (the builtin repr marks a container that contains itself; glom's recurses to the limit: only asked when needed)
                if '\n' in repr(o):
                    vals.append(fmtval(o, 0))
        if x.exc is not None and id(x.exc) not in seen:
            seen.add(id(x.exc))
            vals.append(exc_line(x.exc))
    return known_texts(vals)


def _follow(full, v0, rest, exact):
    """number of physical lines after the one that holds `v0` that belong to the same entry, when the entry shows `full`
    (whole, or - Target / Spec values only - cut off and followed by '...' / '... (len=N)'); None if the lines that follow
    are not the text of `full`"""
    value, n = v0, 0
    while True:
        if value == full or (not exact and shown_matches(value, full)):
            return n
        if not full.startswith(value + '\n') or n >= len(rest):
            return None
        value += '\n' + rest[n]
        n += 1


def split_entries(lines, texts, where, show):
    """cut the physical lines of a trace into ENTRIES (one Target / Spec / error entry each).  A repr or an error message
    may contain newlines: the entry then spans several physical lines, of which only the first carries the depth markers;
    the others are the text of the value / message and must be reproduced verbatim (statement: 'every attempted branch
    and the error that ended it appear', 'shows ... the target it actually received').  `texts`: the multi-line texts that
    exist in this evaluation (known_texts): an entry whose first line shows the first line of one of them goes on with the
    remaining lines of that text.  Returns (parsed entries, their first physical lines, number of physical lines)"""
    parsed, firsts = [], []
    i = 0
    while i < len(lines):
        p = parse_line(lines[i])
        if p is None:
            break
        cands = [t for t in texts if ADDR.sub('', t.split('\n')[0]) == ADDR.sub('', p[3])]
        n = 0
        if cands:
            # (as it stands, or - the texts may come from another evaluation of the same recipe - without memory addresses)
            rest = lines[i + 1:i + 1 + max(t.count('\n') for t in cands)]
            ns = [k for k in [_follow(t, p[3], rest, p[2] == 'error') for t in cands] +
                  [_follow(ADDR.sub('', t), ADDR.sub('', p[3]), [ADDR.sub('', l) for l in rest], p[2] == 'error') for t in cands]
                  if k is not None]
            if not ns:
                # (for the report: the candidate text that agrees with most of the lines that follow)
                cands.sort(key=lambda t: -sum(1 for x, y in zip(t.split('\n')[1:], rest) if x == y))
                raise Mismatch('entry-text-altered', '%s: the entry on trace line %d %r shows the first line of the %s\n%s\nthe remaining '
                               'lines of that text must follow, unaltered and without markers; what follows is\n%s\n%s'
                               % (where, i + 1, lines[i][:60], 'message' if p[2] == 'error' else 'value', cands[0],
                                  '\n'.join(lines[i + 1:i + 1 + cands[0].count('\n')]), show))
            n = max(ns)
        parsed.append((p[0], p[1], p[2], '\n'.join([p[3]] + lines[i + 1:i + 1 + n])))
        firsts.append(lines[i])
        i += n + 1
    return parsed, firsts, i


def check_markers(lines, where, show):
    """(`lines`: the FIRST physical line of every entry of the trace, see split_entries; the other physical lines of an
    entry are text, not trace lines, and carry no marks.)  The branch markers are well-formed (docs/debugging.rst, "Reading Branched Exceptions": '+' starts a branching spec, each
    level of branch adds a '|' on the left, a backslash opens a new branch, 'X' marks the line on which a failed branch ends):
    every branch opens one level below the line above it (or right after the line that closed its elder sibling) with a
    backslash in its own column; 'X' stands only on the LAST line of the branch whose column it is in; a branch that is
    followed by another one is closed by 'X'.  A closed branch of a single line has one column for both marks: it shows
    'X' (its position - deeper than the line above, or directly below a closing 'X' of its depth - still says that it
    opens a branch).  Returns the number of such one-line branches."""
    rows = []
    for ln in lines:
        m = MARKS.match(ln)
        if m is None:
            break
        rows.append(m.group(1))

    def bad(i, why):
        raise Mismatch('branch-markers', '%s: trace line %d %r: %s:\n%s' % (where, i + 1, lines[i][:50], why, show))
    prev = None
    one_line = 0
    for i, m in enumerate(rows):
        d = len(m) - 1
        nxt = rows[i + 1] if i + 1 < len(rows) else None
        if d == 0:
            if m not in '-+':
                bad(i, "a line outside every branch is marked '-' (or '+' for a branching spec)")
        elif m[0] != '|' or any(c not in '|X' for c in m[1:d]) or m[d] not in '|+\\X':
            bad(i, "the columns of the enclosing levels hold '|' (or 'X' where that level's branch ends), the line's own column one of | + \\ X")
        pd = len(prev) - 1 if prev is not None else -1
        if prev is None and d != 0:
            bad(i, 'the trace starts inside a branch')
        opens = d >= 1 and (d > pd or prev[d] == 'X')
        if opens:
            if d > pd + 1:
                bad(i, 'a deeper line starts a new branch exactly one level deeper')
            if d > pd and prev[-1] not in '+\\':
                bad(i, 'a branch opens below a line that does not start a branching spec')
            if m[d] == 'X':
                one_line += 1
            elif m[d] != '\\':
                bad(i, "the first line of a branch carries a backslash in the branch's own column")
        for k in range(1, d + 1):
            if m[k] == 'X' and nxt is not None and not (len(nxt) - 1 < k or (len(nxt) - 1 == k and nxt[k] in '\\X')):
                bad(i, "'X' in column %d marks the end of the branch at depth %d, but that branch goes on below" % (k + 1, k))
        if nxt is not None and nxt[-1] == '\\' and 1 <= len(nxt) - 1 <= d and m[len(nxt) - 1] != 'X':
            bad(i, "the branch at depth %d is abandoned here (another branch follows) but is not closed by 'X' on this, its last line"
                % (len(nxt) - 1))
        if m[d] == '+' and nxt is not None and len(nxt) - 1 != d + 1:
            bad(i, "'+' starts a branching spec but no branch follows")
        prev = m
    return one_line


def exc_line(e):
    return ''.join(traceback.format_exception_only(type(e), e))[:-1]


def chainlike(spec):
    return type(spec) in (tuple, Pipe, Switch)


def check_trace(err, root, target, where, texts=None):
    wrapped = err.__dict__.get('_GlomError__wrapped', err)
    try:
        text = str(err)
        text2 = str(err)
    except Exception as e:
        raise Mismatch('str-raises', '%s: str(exc) raised %s: %s' % (where, type(e).__name__, e))
    if text != text2:
        raise Mismatch('str-unstable', '%s: str(exc) differs on repetition' % where)
    lines = text.split('\n')
    # P1 header
    if lines[0] != 'error raised while processing, details below.' or lines[1] != ' Target-spec trace (most recent last):':
        raise Mismatch('header', '%s: message starts with %r' % (where, lines[:2]))
    show = '\n'.join(lines)
    parsed, firsts, n_phys = split_entries(lines[2:], tree_texts(root) if texts is None else texts, where, show)
    tail = lines[2 + n_phys:]
    check_markers(firsts, where, show)
    # P2 first entry is the root target
    if not parsed or parsed[0][2] != 'Target' or parsed[0][0] != 0 or not shown_matches(parsed[0][3], fmtval(target, 0)):
        raise Mismatch('root-target', '%s: first trace entry is not the root target:\n%s' % (where, show))
    # failing path: descend along children carrying the original error
    top = root.children[0]
    path = [top]
    node = top
    while True:
        nxt = [c for c in node.children if c.exc is wrapped]
        if not nxt:
            break
        node = nxt[-1]
        path.append(node)
    innermost = path[-1]
    if top.exc is None:
        raise HarnessBug('tracer saw no failure')
    # allowed spec texts
    allowed = {}

    def allow(n, why):
        allowed.setdefault(fmtval(n.spec, 0), why)
    for n in path:
        allow(n, 'path')
        for c in n.children:
            if c.exc is not None:
                for x in c.subtree():
                    allow(x, 'attempted branch')
            elif chainlike(n.spec):
                allow(c, 'completed chain step')
    # (children of the innermost failing spec that completed normally -- and whatever they recovered from on
    # their way -- had no part in the error: they are NOT allowed)
    spec_lines = [(i, p) for i, p in enumerate(parsed) if p[2] == 'Spec']
    for i, p in spec_lines:
        if not any(shown_matches(p[3], full) for full in allowed):
            # which node is it?
            culprit = [fmtval(x.spec, 0) for x in top.subtree() if shown_matches(p[3], fmtval(x.spec, 0))]
            raise Mismatch('stale-spec-line', '%s: trace line %r names a spec that is neither on the failing path nor an '
                           'attempted branch of it (%s):\n%s' % (where, firsts[i], 'evaluated elsewhere' if culprit else 'unknown', show))
    # P3: one Spec line per nesting level of the failing path, in order
    pos = -1
    positions = []
    ambiguous = False
    distinct_allowed = list(allowed)
    for n in path:
        full = fmtval(n.spec, 0)
        found = None
        for i, p in spec_lines:
            if i > pos and shown_matches(p[3], full):
                found = i
                if p[3] != full and sum(1 for a_ in distinct_allowed if shown_matches(p[3], a_)) > 1:
                    ambiguous = True      # a truncated line that could stand for several specs
                break
        if found is None:
            raise Mismatch('path-spec-missing', '%s: the spec %s of the failing path is not listed (in order):\n%s'
                           % (where, full[:120], show))
        pos = found
        positions.append(found)
    # P4: the innermost failing spec is shown with the target it received.  The target in force at a line is
    # the last Target line above it that belongs to the same branch or to an enclosing level: lines of earlier
    # sibling branches (and anything nested deeper) are skipped; each branch starts from its parent's target.
    idx = positions[-1]
    cur_d = parsed[idx][0]
    shown_target = None
    if parsed[idx][1] == '\\':
        cur_d -= 1
    for i in ([] if ambiguous else range(idx - 1, -1, -1)):
        d_, tick_, label_, val_ = parsed[i]
        if d_ > cur_d:
            continue
        if d_ < cur_d:
            cur_d = d_
        if label_ == 'Target':
            shown_target = val_
            break
        if tick_ == '\\':
            cur_d -= 1           # above the first line of this branch only enclosing levels count
    if not ambiguous and (shown_target is None or not shown_matches(shown_target, fmtval(innermost.target, 0))):
        # (skipped when a truncated Spec line could stand for several specs: its position is then unreliable)
        raise Mismatch('innermost-target', '%s: the innermost failing spec %s received %s but the trace shows target %r:\n%s'
                       % (where, fmtval(innermost.spec, 0)[:80], fmtval(innermost.target, 0)[:80], shown_target, show))
    # P3b: nesting depth.  A level is printed one bar deeper for every branch point above it on the failing path
    # (a branch point = a spec with two or more failed children, or one that is not its last child).
    def branch_point(n):
        failed_ = [c for c in n.children if c.exc is not None]
        return len(failed_) >= 2 or bool(failed_ and failed_ != [n.children[-1]])
    if not ambiguous:
        depth_ = 0
        for k_, n in enumerate(path):
            got_d = parsed[positions[k_]][0]
            if got_d != depth_:
                raise Mismatch('path-depth', '%s: the spec %s lies below %d branch point(s) of the failing path but is printed at '
                               'depth %d:\n%s' % (where, fmtval(n.spec, 0)[:80], depth_, got_d, show))
            if branch_point(n):
                depth_ += 1
    # P6: attempted branches of branch points on the path, with the errors that ended them
    for n in path:
        failed = [c for c in n.children if c.exc is not None]
        last = n.children[-1] if n.children else None
        is_branch_point = len(failed) >= 2 or (failed and failed != [last])
        if not is_branch_point:
            continue
        order = []
        for c in failed:
            full = fmtval(c.spec, 0)
            at = [i for i, p in spec_lines if shown_matches(p[3], full) and p[1] == '\\']
            # (truncated lines of different branches can read the same: take the first candidate after the previous branch)
            later = [i for i in at if not order or i > order[-1]]
            at = later or at
            if at:
                order.append(at[0])
            if c in path:
                continue            # the branch that really raised is followed by the path checks
            if not at:
                raise Mismatch('branch-missing', '%s: the attempted branch %s of %s (ended by %s) is not shown as a branch:\n%s'
                               % (where, full[:80], type(n.spec).__name__, exc_line(c.exc)[:80], show))
            # inside an abandoned branch the levels down to where ITS error was raised are listed in order
            inner, x_ = [c], c
            while True:
                nx_ = [y for y in x_.children if y.exc is c.exc]
                if not nx_:
                    break
                x_ = nx_[-1]
                inner.append(x_)
            pos_ = at[0] - 1
            for y in inner:
                fy = fmtval(y.spec, 0)
                hit = [i for i, p in spec_lines if i > pos_ and shown_matches(p[3], fy)]
                if not hit:
                    raise Mismatch('branch-inner-order', '%s: inside the abandoned branch %s the level %s is not listed (in order):\n%s'
                                   % (where, full[:60], fy[:60], show))
                pos_ = hit[0]
            want = exc_line(c.exc)
            if not any(p[2] == 'error' and ADDR.sub('', p[3]) == ADDR.sub('', want) and i > at[0] for i, p in enumerate(parsed)):
                raise Mismatch('branch-error-missing', '%s: the error that ended branch %s (%s) is not shown:\n%s'
                               % (where, full[:80], want[:100], show))
        if order != sorted(order):
            raise Mismatch('branch-order', '%s: the branches of %s are not listed in evaluation order:\n%s'
                           % (where, type(n.spec).__name__, show))
    # an error is printed at most once per nesting depth: the number of identical error lines at one depth
    # cannot exceed the number of distinct error objects with that text in the evaluation tree
    objs = {}
    for x in top.subtree():
        if x.exc is not None:
            objs.setdefault(ADDR.sub('', exc_line(x.exc)), set()).add(id(x.exc))
    counts = {}
    for p in parsed:
        if p[2] == 'error':
            key = (p[0], ADDR.sub('', p[3]))
            counts[key] = counts.get(key, 0) + 1
    for (d_, text_), c in counts.items():
        have = len(objs.get(text_, ()))
        if have and c > have:
            raise Mismatch('duplicate-error-line', '%s: the error line %r appears %d times at depth %d but only %d such error(s) '
                           'occurred:\n%s' % (where, text_[:100], c, d_, have, show))
        if not have:
            raise Mismatch('unknown-error-line', '%s: the error line %r matches no error that occurred:\n%s' % (where, text_[:100], show))
    # P5: the message ends with the original error
    want_last = exc_line(wrapped).split('\n')[-1]
    if tail and 'str() failed' in tail[-1]:
        raise Mismatch('final-error', '%s: the message of the original error cannot be rendered: %r' % (where, tail[-1]))
    if not tail or ADDR.sub('', tail[-1]) != ADDR.sub('', want_last):
        raise Mismatch('final-error', '%s: the message must end with %r, it ends with %r' % (where, want_last, tail[-1:] or parsed[-1:]))
    return parsed, path, wrapped


def trace_value(value, maxlen):
    s_ = bbrepr(value).replace("\\'", "'")
    if len(s_) > maxlen:
        try:
            suffix = '... (len=%s)' % len(value)
        except Exception:
            suffix = '...'
        s_ = s_[:maxlen - len(suffix)] + suffix
    return s_


def render_linear(path, wrapped, width=78):
    """the exact lines of a trace without branch points (rules R1-R4, R6 of DESIGN.md section 4 / C05):
    Target line iff the object differs BY IDENTITY from the previously shown one; completed steps of a chain
    before its failing step; a level's own error (when it is not the one leaving glom and not its child's)
    right after its Spec line"""
    lines = []
    shown = [object()]

    def entry(target, spec):
        if target is not shown[0]:
            pre = ' - Target: '
            lines.append(pre + trace_value(target, width - len(pre)))
        shown[0] = target
        pre = ' - Spec: '
        lines.append(pre + trace_value(spec, width - len(pre)))

    for i, n in enumerate(path):
        entry(n.target, n.spec)
        nxt = path[i + 1] if i + 1 < len(path) else None
        child_err = nxt.exc if nxt is not None else None
        if n.exc is not None and n.exc is not wrapped and n.exc is not child_err:
            lines.append(' - ' + exc_line(n.exc))
        if nxt is not None and chainlike(n.spec):
            for c in n.children:
                if c is nxt:
                    break
                entry(c.target, c.spec)
    return lines


def check(recipe, ctx):
    r = recipe['spec']
    spec = build(r)
    target = Named('root-target')
    err, root = trace_tree(spec, target)
    where = 'spec=%s' % ADDR.sub('', repr(spec))[:300]
    if err is None:
        # (rare: the generator plans failures per sub-spec, and a non-GlomError - a ValueError leaf - that leaks through a
        # Coalesce(default=) planned as "recovers" makes an enclosing Not pass.  Nothing to trace: the case asserts nothing;
        # the floors on the failing classes keep this from becoming the rule)
        ctx.label('generated-spec-succeeds')
        return
    # the message under test comes from an evaluation WITHOUT the tracer
    spec2 = build(r)
    try:
        glom.glom(target, spec2)
        raise HarnessBug('second evaluation did not fail')
    except HarnessBug:
        raise
    except Exception as e2:
        plain = e2
    if not isinstance(plain, GlomError):
        ctx.label('not-wrapped')
        return
    texts = tree_texts(root)
    parsed, path, wrapped = check_trace(err, root, target, where, texts)
    # a T expression that fails in argument position is the innermost spec that failed: it is listed
    for m_ in re.finditer(r"\['argfail', '[a-z-]+', (\d+)\]", repr(r)):
        want_ = "T['argnope%s']" % m_.group(1)
        if isinstance(wrapped, glom.PathAccessError) and want_ in repr(wrapped.path) and \
                not any(p_[2] == 'Spec' and p_[3] == want_ for p_ in parsed):
            raise Mismatch('path-spec-missing', '%s: the argument expression %s failed but has no Spec line of its own:\n%s'
                           % (where, want_, str(err)))
        ctx.label('fails-in-argument-position')
    # exact comparison for traces without branch points
    if all(p[0] == 0 and p[1] == '-' for p in parsed):
        failed_off_path = any(c.exc is not None and c not in path for n in path for c in n.children)
        if not failed_off_path:
            ctx.label('linear-exact')
            exp_lines = '\n'.join(render_linear(path, wrapped)).split('\n')      # (an entry may span several lines)
            got_lines = str(err).split('\n')[2:2 + len(exp_lines)]
            if [ADDR.sub('', l) for l in got_lines] != [ADDR.sub('', l) for l in exp_lines]:
                raise Mismatch('linear-trace', '%s: expected the trace to start with\n%s\nbut it is\n%s'
                               % (where, '\n'.join(exp_lines), str(err)))
    # the untraced message has the same structure
    try:
        t_plain = str(plain)
    except Exception as e:
        raise Mismatch('str-raises', '%s: str(exc) raised %s: %s' % (where, type(e).__name__, e))
    a = split_entries(t_plain.split('\n')[2:], texts, where + ' (evaluated without the tracer)', t_plain)[0]
    if [(p[0], p[1], p[2]) for p in a] != [(p[0], p[1], p[2]) for p in parsed]:
        raise Mismatch('tracer-changes-trace', '%s: the trace differs with and without the evaluation tracer' % where)
    # widths
    scope = getattr(err, '_scope', None)
    if scope is not None:
        for w in (50, 60, 78, 110, 200):
            try:
                text = glom.core.format_target_spec_trace(scope, wrapped, width=w)
            except Exception as e:
                raise Mismatch('width', '%s: format_target_spec_trace(width=%d) raised %r' % (where, w, e))
            ls = text.split('\n')
            ps, fs, n_ = split_entries(ls, texts, where + ' (width %d)' % w, text)
            if n_ != len(ls) or [(p[0], p[1], p[2]) for p in ps] != [(p[0], p[1], p[2]) for p in parsed]:
                raise Mismatch('width-structure', '%s: width %d changes the structure of the trace' % (where, w))
            for l, p in zip(fs, ps):
                # (every physical line of a Target / Spec entry: the first with its marks and label, the rest as they are)
                for l_ in [l] + p[3].split('\n')[1:]:
                    if p[2] in ('Target', 'Spec') and len(l_) > w:
                        raise Mismatch('width-overflow', '%s: width %d: line of %d characters: %r' % (where, w, len(l_), l_))
    depth = len(path)
    branchy = any(len([c for c in n.children if c.exc is not None]) >= 2 or
                  ([c for c in n.children if c.exc is not None] and [c for c in n.children if c.exc is not None] != [n.children[-1]])
                  for n in path)
    recovered = 'coalesce-default' in repr(r) or any(n.exc is None and any(x.exc is not None for x in n.subtree())
                                                      for n in root.children[0].subtree())
    ctx.label('depth-%d' % min(depth, 6))
    if "'cyclic'" in repr(r):
        ctx.label('target-contains-itself')
    if "'keyerror'" in repr(r) or "'oserror'" in repr(r):
        ctx.label('exception-with-own-str')
    # entries of several physical lines (F109).  Classes by what the trace has to show, from the evaluation tree:
    # an error line / a Target line / a Spec line whose text has a newline; and the shape in which the mark that closes a
    # branch (X) belongs on such an entry: an abandoned branch (a failed child of a level of the failing path that is not
    # the one the path follows) that ends where its multi-line error was raised
    shown_nodes = [c for n in path for c in n.children if c.exc is not None and c not in path]
    if any('\n' in exc_line(c.exc) and not any(y.exc is not None for y in c.children) for c in shown_nodes):
        ctx.label('abandoned-branch-ends-in-multiline-error')
    for lab_, what_ in (('Target', 'multiline-target-entry'), ('Spec', 'multiline-spec-entry'), ('error', 'multiline-error-entry')):
        if any(p[2] == lab_ and '\n' in p[3] for p in parsed):
            ctx.label(what_)
    if branchy:
        ctx.label('branch-point')
    if recovered:
        ctx.label('recovered-branch')
    # a spec that abandoned three or more branches and then went on (seeded change C05-K: only the first two were forgiven)
    if any(n.exc is None and len([c for c in n.children if c.exc is not None]) >= 3 for n in root.children[0].subtree()):
        ctx.label('recovered-after-3plus-abandoned')
    if any(len([c for c in n.children if c.exc is not None and c not in path]) >= 3 for n in path):
        ctx.label('branch-point-3plus-abandoned')
    if any(p[2] == 'Target' and p[3].endswith(')') and '... (len=' in p[3] or p[3].endswith('...') for p in parsed):
        ctx.label('truncated')
    ctx.nontrivial(depth >= 3 or branchy or recovered)
    ctx.outcome([ADDR.sub('', repr(spec))[:140], type(wrapped).__name__, depth])


# ---------------------------------------------------------------------------
# lazily evaluated sub-specs: Iter(sub) consumed by a LATER step of the chain.  The failing sub-spec is evaluated
# while the consumer runs, in a scope that hangs off the (already finished) Iter step.
# Classes: the sub-spec fails while the consumer runs (mode lazy); every item passes and a step after the consumer fails
# (after); the sub-spec fails, the consuming step recovers and a later step fails (recovered: a linear chain, the swallowed
# failure has no part in it); Iter(sub).windowed(n) / .map(sub).windowed(n), which pulls n - 1 items inside the Iter step
# (the failure is then raised eagerly: every level once, nothing branches); a branching sub-spec all of whose
# alternatives fail (the lazily failing branch of the Iter then ENDS in a nested branch: position of the closing X).
# translated: the sub-spec fails while the consumer runs and the consuming step turns that error into ANOTHER one (a Coalesce
# around the consumer -> CoalesceError, Or(consumer, <pattern>) -> the MatchError of its last alternative, a callable that
# catches and raises an error of its own, with and without `from`): the lazily failing spec, the item it received and its
# error still belong to the trace (F110).  'ml': the message of the lazily raised error, the repr of the failing sub-spec, the
# repr of the items span several lines (F109: the lazily failing branch is closed on the first line of such an entry).

class OkStep(object):
    """a chain step with a unique, address-free repr that passes its target on"""
    def __init__(self, n):
        self.n = n
        self.__name__ = 'step%d' % n

    def __call__(self, t):
        return t

    def __repr__(self):
        return 'step%d' % self.n


class Consumer(OkStep):
    def __call__(self, t):
        self.out = list(t)
        return self.out

    def __repr__(self):
        return 'consume%d' % self.n


class Translator(Consumer):
    """a consumer that catches whatever the stream raises and raises an error of its own (`except X: raise Y [from X]`)"""
    def __init__(self, n, cls, chained):
        Consumer.__init__(self, n)
        self.cls, self.chained = cls, chained
        self.caught = self.new = None

    def __call__(self, t):
        try:
            self.out = list(t)
        except Exception as e:
            self.caught = e
            self.new = (GlomError if self.cls == 'glom' else RuntimeError)('translated by consume%d' % self.n)
            if self.chained:
                raise self.new from e
            raise self.new
        return self.out

    def __repr__(self):
        return 'translate%d' % self.n


GLOM_KINDS = ['path', 'tstep', 'glomerror']        # failures that are GlomErrors (Coalesce / Or / Not recover from them)


def gen_subshape(draw):
    """the sub-spec of the Iter / the key of First: one failing spec, or a branching spec all of whose alternatives fail
    (the lazily raised error then ends a branch whose last lines belong to a NESTED branch)"""
    S_ = st.sampled_from
    if draw(S_([0, 1])):
        return ['coalesce', [draw(S_(GLOM_KINDS)) for _ in range(draw(S_([1, 1, 2])))]]
    return ['plain']


# stages of an Iter that evaluate a spec per item, lazily (while whoever consumes the stream runs): Iter(sub) itself and
LAZY_STAGES = ('map', 'filter', 'unique', 'takewhile', 'dropwhile')
# ... of which these only look at the truth / the identity of what their spec returns (the items flow on unchanged)
KEYED_STAGES = ('filter', 'unique', 'takewhile', 'dropwhile')
# what a spec that PASSES on every item returns: the item (a Named without items: falsy, distinct per item), its name (truthy,
# distinct), True, None.  TRANSPARENT: the values with which a stage of that kind lets every item through unchanged
PASS_VALUES = {'map': ['item'], 'filter': ['item', 'name', 'true', 'none'], 'unique': ['item', 'name', 'true', 'none'],
               'takewhile': ['item', 'name', 'true', 'none'], 'dropwhile': ['item', 'name', 'true', 'none']}
TRANSPARENT = {'map': ['item'], 'filter': ['name', 'true'], 'unique': ['item', 'name'], 'takewhile': ['name', 'true'],
               'dropwhile': ['item', 'none']}


def gen_pass(draw, kind, transparent):
    """[stage kind, shape of its spec, value]: a spec that completes on every item.  Shapes: a callable, a chain that ends
    in one, a Coalesce whose first alternative fails and is recovered from, a T attribute access, a string path"""
    S_ = st.sampled_from
    val = draw(S_((TRANSPARENT if transparent else PASS_VALUES)[kind]))
    shape = draw(S_(['call', 'chain', 'coalesce'] + (['tattr', 'tattr', 'path', 'path'] if val in ('name', 'none') else [])))
    return [kind, shape, val]


def gen_lazy(draw):
    S_ = st.sampled_from
    # 'after': every item passes; a step AFTER the consumer fails (the chain must have continued from the consumer)
    # 'recovered': the sub-spec fails while the consumer runs, the consuming step RECOVERS (Or / Coalesce / Not around the
    #              consumer), a later step fails: the swallowed failure has no part in that error
    # 'translated': the sub-spec fails while the consumer runs and the consuming step raises ANOTHER error in its place
    mode = draw(S_(['lazy', 'lazy', 'lazy', 'lazy', 'after', 'after', 'after', 'after', 'recovered', 'recovered', 'translated', 'translated']))
    r = {'pre': draw(S_([0, 0, 1, 2, 3])), 'mid': draw(S_([0, 0, 1, 2, 3])), 'post': draw(S_([0, 1])),
         'fail': draw(S_(['path', 'tstep', 'glomerror', 'valueerror'])), 'failat': draw(S_([0, 0, 1])),
         # '-windowed': windowed(n) pulls its first n - 1 items INSIDE the Iter's own evaluation: a failure on one of them is
         # raised eagerly, by the Iter step itself
         # every stage that evaluates a spec per item: Iter(sub), map, filter, unique(key), takewhile(key), dropwhile(key)
         'how': draw(S_(['iter', 'iter', 'map', 'map', 'filter', 'unique', 'unique', 'takewhile', 'dropwhile'] +
                        ([] if mode in ('recovered', 'translated') else ['iter-windowed'] * 4 + ['map-windowed'] * 3))),
         'chain': draw(S_(['tuple', 'tuple', 'pipe'])),
         'wrap': draw(S_(['none', 'none', 'spec', 'auto', 'coalesce', 'dict', 'nested-chain'])),
         'mode': mode, 'sub': gen_subshape(draw)}
    if r['how'].endswith('windowed'):
        r['win'] = draw(S_([2, 2, 3]))
    if mode == 'recovered':
        r['rec'] = 'coalesce-skipexc' if r['fail'] == 'valueerror' else draw(S_(['or', 'coalesce-default', 'coalesce-alt', 'and-not']))
    if mode == 'translated':
        # (Coalesce / Or react to GlomErrors; a ValueError needs skip_exc= or a callable that catches it)
        r['trans'] = draw(S_(['coalesce-skipexc', 'coalesce-skipexc', 'callable', 'callable-from'] if r['fail'] == 'valueerror' else
                             ['coalesce', 'coalesce', 'or-matcherror', 'or-matcherror', 'callable', 'callable-from']))
        if r['trans'].startswith('callable'):
            r['tclass'] = draw(S_(['glom', 'runtime']))
    # entries of several physical lines: the message of the planted error (the kinds that raise it themselves), the repr of
    # the failing sub-spec, the repr of the items
    # (drawn so that the shrinker removes them)
    r['ml'] = [x for x, n_ in (('msg', 2), ('spec', 3), ('item', 4)) if draw(S_(range(n_))) == n_ - 1]
    if r['how'] in KEYED_STAGES:
        # what the sub-spec returns for the items it passes: the item (falsy) or True.  takewhile / dropwhile reach the second
        # item only after a truthy key for the first
        r['passval'] = 'true' if r['how'] in ('takewhile', 'dropwhile') and mode != 'after' else draw(S_(['item', 'true']))
    if not r['how'].endswith('windowed') and draw(S_([0, 1, 1] if mode == 'after' else [0, 1])):
        # a SECOND lazily evaluating stage in the same Iter, before or after the first, whose spec completes on every item
        # (in the modes in which the sub-spec has to fail on a given item: with a value that lets every item through)
        r['also'] = gen_pass(draw, draw(S_(LAZY_STAGES)), mode != 'after') + [draw(S_(['before', 'after']))]
    return r


class FailAt(object):
    """sub-spec of the Iter: passes the items before position `at`, fails (in the planted way) on that one"""
    def __init__(self, kind, at, tag='', passval='item', ml=()):
        self.kind, self.at, self.tag, self.passval, self.ml = kind, at, tag, passval, ml
        self.__name__ = 'failat'
        self.raised = None

    def inner(self):
        """the spec this one evaluates as a child of its own on the failing item, if any"""
        if self.kind == 'path':
            return 'missing_lazy' + self.tag
        if self.kind == 'tstep':
            return T['nope_lazy' + self.tag]
        return None

    def glomit(self, target, scope):
        if self.at < 0 or not target.name.endswith('_' + 'ab'[self.at]):
            return True if self.passval == 'true' else target
        try:
            if self.inner() is not None:
                return scope[glom.glom](target, self.inner(), scope)
            more = '\nsecond line of the lazy message%s\n  third line, indented' % self.tag if 'msg' in self.ml else ''
            if self.kind == 'glomerror':
                raise GlomError('lazy refuses' + self.tag + more)
            raise ValueError('lazy fails' + self.tag + more)
        except Exception as e:
            self.raised = e
            raise

    def __repr__(self):
        return 'FailAt(%r, %d%s%s%s)' % (self.kind, self.at, ', %r' % self.tag if self.tag else '',
                                         ', passval=%r' % self.passval if self.passval != 'item' else '',
                                         ',\n  repr on two lines' if 'spec' in self.ml else '')


class PassStep(object):
    """a spec that completes on every item of the stream, with a unique, address-free repr"""
    def __init__(self, n, val):
        self.n, self.val = n, val
        self.__name__ = 'pass%d' % n

    def __call__(self, t):
        if self.val == 'item':
            return t
        if self.val == 'name':
            return t.name
        return True if self.val == 'true' else None

    def __repr__(self):
        return 'pass%d_%s' % (self.n, self.val)


def build_pass(shape, val, n):
    if shape == 'tattr':
        return T.name if val == 'name' else T.items          # (the items of the stream are Named without items: None)
    if shape == 'path':
        return 'name' if val == 'name' else 'items'
    p = PassStep(n, val)
    if shape == 'chain':
        return (OkStep(n + 1), p)
    if shape == 'coalesce':
        return Coalesce('missing_pass%d' % n, p)
    return p


def build_sub(r, at):
    """(sub-spec, its failing alternatives or None)"""
    shape = r.get('sub') or ['plain']
    pv = r.get('passval', 'item')
    ml = tuple(r.get('ml', ()))
    if shape[0] == 'plain':
        return FailAt(r['fail'], at, passval=pv, ml=ml), None
    alts = [FailAt(k, at, '_' + 'xyz'[i], pv, ml) for i, k in enumerate(list(shape[1]) + [r['fail']])]
    return Coalesce(*alts), alts


def inner_specs(sub, alts):
    """the levels from the sub-spec down, in evaluation order, on the item that fails"""
    out = [sub]
    for a in (alts if alts is not None else [sub]):
        if alts is not None:
            out.append(a)
        if a.inner() is not None:
            out.append(a.inner())
    return out


def sub_error_is_glomerror(r):
    """the error that leaves the sub-spec is a GlomError (a CoalesceError when every alternative of a branching sub-spec
    failed with GlomErrors; the last alternative's ValueError passes through Coalesce)"""
    return r['fail'] != 'valueerror'


def chain_error_is_glomerror(r):
    """the error that leaves the CHAIN is a GlomError: the sub-spec's, or the one the consuming step raises in its place"""
    if r.get('mode') == 'translated':
        return not r['trans'].startswith('callable') or r.get('tclass', 'glom') == 'glom'
    return sub_error_is_glomerror(r)


def item_name(r):
    return (ML_ITEM % (77, 'ab'[r['failat']])) if 'item' in r.get('ml', ()) else 'item77_' + 'ab'[r['failat']]


def label_multiline(ctx, r, fails):
    """classes of entries that span several physical lines.  `fails`: the sub-spec fails in this mode (the kinds that raise
    their error themselves carry the multi-line message; a missing path segment / T step raises glom's own PathAccessError)"""
    ml = r.get('ml', ())
    shape = r.get('sub') or ['plain']
    kinds = [r['fail']] + (list(shape[1]) if shape[0] == 'coalesce' else [])
    if 'msg' in ml and fails and any(k_ in ('glomerror', 'valueerror') for k_ in kinds):
        ctx.label('lazy-multiline-message')
    if 'spec' in ml:
        ctx.label('lazy-multiline-spec')
    if 'item' in ml:
        ctx.label('lazy-multiline-item')


RESCUED = Named('rescued')


class Lazy(object):
    pass


def build_lazy(r):
    b = Lazy()
    mode = r.get('mode', 'lazy')
    b.sub, b.alts = build_sub(r, -1 if mode == 'after' else r['failat'])
    sub, how, n = b.sub, r['how'], r.get('win', 2)
    # Iter(sub) / Iter().<stage>(sub), a second stage with a passing spec before or after it, .windowed(n) last
    b.stages = [] if how.startswith('iter') else [(how.split('-')[0], sub)]
    also = r.get('also')
    if also:
        b.stages.insert(0 if also[3] == 'before' else len(b.stages), (also[0], build_pass(also[1], also[2], 60)))
    b.it = Iter(sub) if how.startswith('iter') else Iter()
    for kind_, spec_ in b.stages:
        if kind_ not in LAZY_STAGES:
            raise HarnessBug('unknown stage %r' % (kind_,))
        b.it = getattr(b.it, kind_)(spec_)
    if how.endswith('windowed'):
        b.it = b.it.windowed(n)
    b.kinds = sorted(set((['iter'] if how.startswith('iter') else []) + [k_ for k_, _ in b.stages]))
    # a failure on one of the first n - 1 items is raised while the Iter step itself is evaluated
    b.eager = mode == 'lazy' and how.endswith('windowed') and r['failat'] < n - 1
    b.cons = Consumer(20)
    b.consuming = b.cons
    if mode == 'recovered':
        c = b.cons
        b.consuming = {'or': lambda: Or(c, Val(RESCUED)), 'coalesce-default': lambda: Coalesce(c, default=RESCUED),
                       'coalesce-alt': lambda: Coalesce(c, Val(RESCUED)), 'and-not': lambda: And(Not(c), Val(RESCUED)),
                       'coalesce-skipexc': lambda: Coalesce(c, default=RESCUED, skip_exc=ValueError)}[r['rec']]()
    b.extra = []           # the specs evaluated INSIDE the consuming step, in order
    if mode == 'translated':
        if r['trans'].startswith('callable'):
            b.cons = b.consuming = Translator(20, r.get('tclass', 'glom'), r['trans'] == 'callable-from')
        else:
            c = b.cons
            b.never = M == 'never-equal'
            b.consuming = {'coalesce': lambda: Coalesce(c), 'coalesce-skipexc': lambda: Coalesce(c, skip_exc=ValueError),
                           'or-matcherror': lambda: Or(c, b.never)}[r['trans']]()
            b.extra = [c] + ([b.never] if r['trans'] == 'or-matcherror' else [])
    steps = [OkStep(i) for i in range(r['pre'])] + [Probe(77, 'list-ml' if 'item' in r.get('ml', ()) else 'list'), b.it] + [OkStep(10 + i) for i in range(r['mid'])] + \
        [b.consuming] + [OkStep(30 + i) for i in range(r['post'])]
    if mode in ('after', 'recovered'):
        steps.append('missing_after' if r['fail'] in ('path', 'glomerror') else T['nope_after'])
    b.steps = steps
    b.chain = tuple(steps) if r['chain'] == 'tuple' else Pipe(*steps)
    chain = b.chain
    b.outer_step = OkStep(40)
    b.full = {'none': lambda: chain, 'spec': lambda: Spec(chain), 'auto': lambda: Auto(chain),
              'coalesce': lambda: Coalesce(chain, 'missing_alt'), 'dict': lambda: {'k': chain},
              'nested-chain': lambda: (b.outer_step, chain)}[r['wrap']]()
    # the levels above the chain, in order
    b.above = {'none': [], 'nested-chain': [b.full, b.outer_step]}.get(r['wrap'], [b.full])
    return b


def parse_trace(text, where, texts=()):
    """`texts`: the texts of several lines that exist in the evaluation (see split_entries)"""
    lines = text.split('\n')
    if lines[0] != 'error raised while processing, details below.' or lines[1] != ' Target-spec trace (most recent last):':
        raise Mismatch('header', '%s: message starts with %r' % (where, lines[:2]))
    parsed, firsts, n_phys = split_entries(lines[2:], texts, where, text)
    one_line = check_markers(firsts, where, text)
    return lines, parsed, lines[2 + n_phys:], one_line


def locator(parsed, where, show):
    spec_lines = [(i, p_[3]) for i, p_ in enumerate(parsed) if p_[2] == 'Spec']

    def at(spec_obj, must=True):
        full_ = ADDR.sub('', fmtval(spec_obj, 0))
        hits = [i for i, shown in spec_lines if shown_matches(ADDR.sub('', shown), full_)]
        if len(hits) > 1:
            raise Mismatch('lazy-duplicate-line', '%s: the spec %s is listed %d times:\n%s' % (where, full_[:60], len(hits), show))
        if not hits and must:
            raise Mismatch('path-spec-missing', '%s: the spec %s of the failing path is not listed:\n%s' % (where, full_[:80], show))
        return hits[0] if hits else None
    return spec_lines, at


def check_exact_specs(parsed, expected, where, show, what):
    """statement: the trace 'lists in evaluation order the spec at every level of nesting from the root spec down to the
    innermost spec that failed' - each level once (+ the completed steps of a chain before its failing step), nothing else"""
    got = [ADDR.sub('', p_[3]) for p_ in parsed if p_[2] == 'Spec']
    want = [ADDR.sub('', fmtval(x, 0)) for x in expected]
    if len(got) != len(want) or not all(shown_matches(g, w) for g, w in zip(got, want)):
        kind = 'lazy-duplicate-line' if len(got) > len(set(got)) else 'stale-spec-line' if len(got) > len(want) else 'path-spec-missing'
        raise Mismatch(kind, '%s: %s: the Spec lines must be exactly\n  %s\nthey are\n  %s\n%s'
                       % (where, what, '\n  '.join(w[:100] for w in want), '\n  '.join(got), show))


def check_plain_levels(parsed, idxs, where, show, what):
    """levels that are no branch points (a single child failed, and it is the last one evaluated) are drawn in line:
    same depth, none of them marked '+' """
    depths = set(parsed[i][0] for i in idxs)
    if len(depths) > 1 or any(parsed[i][1] == '+' for i in idxs):
        raise Mismatch('plain-spec-drawn-as-branch', '%s: %s: nothing was attempted twice on these levels, but they are drawn as '
                       'branching specs / at different depths:\n%s' % (where, what, show))


def check_alternatives(parsed, at, coal, alts, wrapped, where, show):
    """statement: 'For branching specs every attempted branch and the error that ended it appear'; docs/debugging.rst: '+'
    starts the branching spec, every branch is drawn one level deeper, opened by a backslash, its error follows"""
    i_c = at(coal)
    dc = parsed[i_c][0]
    if parsed[i_c][1] != '+':
        raise Mismatch('branch-missing', '%s: every alternative of %s failed but it is not marked as a branching spec (+):\n%s'
                       % (where, fmtval(coal, 0)[:60], show))
    idx = [at(a) for a in alts]
    if idx != sorted(idx) or idx[0] < i_c:
        raise Mismatch('branch-order', '%s: the alternatives of %s are not listed below it in evaluation order:\n%s'
                       % (where, fmtval(coal, 0)[:60], show))
    end = len(parsed)
    for j in range(i_c + 1, len(parsed)):
        if parsed[j][0] <= dc:
            end = j
            break
    for n_, a in enumerate(alts):
        # (check_markers has established that an 'X' on a line in this position closes a branch of that one line)
        if parsed[idx[n_]][0] != dc + 1 or parsed[idx[n_]][1] not in '\\X':
            raise Mismatch('branch-missing', '%s: the attempted alternative %r is not drawn as a branch (one level deeper, '
                           'opened by a backslash):\n%s' % (where, a, show))
        block = parsed[idx[n_] + 1:(idx[n_ + 1] if n_ + 1 < len(alts) else end)]
        if a.raised is None:
            raise HarnessBug('alternative %r did not fail' % (a,))
        if a.inner() is not None and not any(p_[2] == 'Spec' and p_[0] == dc + 1 and p_[3] == fmtval(a.inner(), 0) for p_ in block):
            raise Mismatch('branch-inner-order', '%s: inside the alternative %r the level %r is not listed:\n%s' % (where, a, a.inner(), show))
        if a.raised is not wrapped:
            want = exc_line(a.raised)
            if not any(p_[2] == 'error' and p_[0] == dc + 1 and p_[3] == want for p_ in block):
                raise Mismatch('branch-error-missing', '%s: the error that ended the alternative %r (%s) is not shown in its branch:\n%s'
                               % (where, a, want[:100], show))


def check_final_error(tail, wrapped, where, show):
    want = ADDR.sub('', exc_line(wrapped)).split('\n')
    if not tail or ADDR.sub('', '\n'.join(tail)).rstrip('\n').split('\n')[-len(want):] != want:
        raise Mismatch('final-line', '%s: the message does not end with the original error %s:\n%s' % (where, exc_line(wrapped)[:80], show))


def check_lazy(recipe, ctx):
    b = build_lazy(recipe)
    full, chain, steps, it, sub = b.full, b.chain, b.steps, b.it, b.sub
    mode = recipe.get('mode', 'lazy')
    target = Named('root-target')
    where = 'spec=%s' % ADDR.sub('', repr(full))[:300]
    try:
        glom.glom(target, full)
        raise HarnessBug('lazy spec does not fail')
    except HarnessBug:
        raise
    except GlomError as e:
        err = e
    except Exception as e:
        ctx.label('not-wrapped')
        return
    wrapped = err.__dict__.get('_GlomError__wrapped', err)
    try:
        text = str(err)
    except Exception as e:
        raise Mismatch('str-raises', '%s: str(exc) raised %s: %s' % (where, type(e).__name__, e))
    show = text
    texts = ()
    if recipe.get('ml'):
        # the texts of several lines that exist in this evaluation (reprs, error messages): from a second evaluation of the
        # same recipe, recorded through scope[glom]
        texts = tree_texts(trace_tree(build_lazy(recipe).full, Named('root-target'))[1])
    lines, parsed, tail, one_line = parse_trace(text, where, texts)
    if one_line:
        ctx.label('one-line-closed-branch')
    if not parsed or parsed[0][2] != 'Target' or parsed[0][3] != 'root-target':
        raise Mismatch('root-target', '%s: first trace entry is not the root target:\n%s' % (where, show))
    spec_lines, at = locator(parsed, where, show)
    inner = inner_specs(sub, b.alts)
    n_it = steps.index(it)
    n_cons = n_it + recipe['mid'] + 1
    shape = (recipe.get('sub') or ['plain'])[0]
    if mode in ('after', 'recovered'):
        order = [at(x) for x in b.above] + [at(chain)] + [at(x) for x in steps]
        if order != sorted(order):
            raise Mismatch('lazy-order', '%s: the steps of the chain are not listed in order:\n%s' % (where, show))
        for x in inner:
            if at(x, must=False) is not None:
                raise Mismatch('stale-spec-line', '%s: the sub-spec of the Iter %s but is listed among the steps of the chain:\n%s'
                               % (where, 'completed for every item (while the consumer ran)' if mode == 'after' else
                                  'failed while the consumer ran, the consuming step recovered, and the error comes from a later step', show))
        above = [p_[3] for p_ in parsed[:order[-1]] if p_[2] == 'Target']
        received = fmtval(b.cons.out if mode == 'after' else RESCUED, 0)       # ([] for filter: the items are falsy)
        if not above or not shown_matches(above[-1], received):       # (a list of items with long reprs is cut off)
            raise Mismatch('innermost-target', '%s: the failing step received %s but the target shown above it is %r:\n%s'
                           % (where, received, above[-1] if above else None, show))
        # the whole chain completed step by step up to its last one: a linear chain, every level listed once
        # (+ the second alternative of the Coalesce wrapper, which is tried after the chain failed)
        check_exact_specs(parsed, b.above + [chain] + steps + (['missing_alt'] if recipe['wrap'] == 'coalesce' else []), where, show,
                          'the chain failed in its last step, every earlier step completed')
        check_plain_levels(parsed, [at(chain)] + [at(x) for x in steps], where, show, 'the chain and its steps')
        if mode == 'recovered':
            swallowed = [a.raised for a in (b.alts or [sub])]
            if any(s_ is None for s_ in swallowed):
                raise HarnessBug('the sub-spec did not fail')
            for s_ in swallowed:
                if any(p_[2] == 'error' and p_[3] == exc_line(s_) for p_ in parsed):
                    raise Mismatch('stale-spec-line', '%s: the error %s was recovered from by %r; it has no part in the error of the '
                                   'later step but is shown:\n%s' % (where, exc_line(s_)[:80], b.consuming, show))
            check_final_error(tail, wrapped, where, show)
            ctx.label('recovered-lazy-failure', 'rec-' + recipe['rec'])
        else:
            ctx.label('fails-after-consumer')
            # one class per kind of lazily evaluating stage: its spec ran on the items while the consumer ran, completed, and
            # has no part in the failure of the later step
            ctx.label(*['after-consumer:' + k_ for k_ in b.kinds])
        ctx.label(*['stage-' + k_ for k_ in b.kinds])
        if recipe.get('also'):
            ctx.label('two-lazy-stages', 'second-stage-spec-' + recipe['also'][1])
        ctx.label('lazy-' + recipe['how'])
        label_multiline(ctx, recipe, mode == 'recovered')
        if recipe['mid']:
            ctx.label('steps-between')
        ctx.nontrivial(True)
        ctx.outcome([ADDR.sub('', repr(full))[:140], type(wrapped).__name__])
        return
    caught_by_wrapper = recipe['wrap'] == 'coalesce' and chain_error_is_glomerror(recipe)
    if b.eager:
        # the Iter step itself raised: the steps after it never ran, nothing is lazy about this failure
        upto = b.above + [chain] + steps[:n_it + 1]
        expected = upto + inner + (['missing_alt'] if caught_by_wrapper else [])
        check_exact_specs(parsed, expected, where, show, 'the Iter step raised while it was evaluated (windowed() pulled the failing item)')
        # (when an item before the failing one completed inside the Iter's evaluation, glom draws the Iter like a lazily
        # failing one, as a branching spec with the single branch of the failing item; the statement does not speak
        # about that mark, the lines are the same: not asserted for the Iter and below in that case)
        below_too = recipe['failat'] == 0
        check_plain_levels(parsed, [at(x) for x in [chain] + steps[:n_it + (1 if below_too else 0)] + (inner if b.alts is None and below_too else [])],
                           where, show, 'the chain and its steps down to the Iter' + (' and the levels below' if below_too else ''))
        ctx.label('windowed-eager')
        if not below_too:
            ctx.label('windowed-eager-after-completed-item')
    else:
        evaluated = steps[:n_cons + 1]
        never = steps[n_cons + 1:]
        order_a = [at(x) for x in b.above] + [at(chain)] + [at(x) for x in steps[:n_it + 1]] + [at(x) for x in inner]
        if order_a != sorted(order_a):
            raise Mismatch('lazy-order', '%s: root -> chain -> steps -> Iter -> sub-spec are not listed in this order:\n%s' % (where, show))
        order_b = [at(it)] + [at(x) for x in steps[n_it + 1:n_cons + 1]]
        if order_b != sorted(order_b):
            raise Mismatch('lazy-order', '%s: Iter -> later steps -> consumer are not listed in this order:\n%s' % (where, show))
        for x in never:
            if at(x, must=False) is not None:
                raise Mismatch('stale-spec-line', '%s: the step %r after the failing consumer was never evaluated but is listed:\n%s' % (where, x, show))
        # every level is listed once: above the chain, the chain, the evaluated steps, the levels from the sub-spec down
        # (+ the second alternative of the Coalesce wrapper, tried after the chain failed with a GlomError)
        # (Iter().filter(sub) evaluates sub through Check(sub, default=SKIP): that level may be listed above the sub-spec)
        via = at(Check(sub, default=glom.SKIP), must=False) if recipe['how'] == 'filter' else None
        if via is not None and not order_a[-len(inner) - 1] < via < order_a[-len(inner)]:
            raise Mismatch('lazy-order', '%s: the Check through which filter() evaluates the sub-spec is not listed between the Iter and the sub-spec:\n%s' % (where, show))
        # (translated: + the specs evaluated inside the consuming step - the consumer itself, the last alternative of Or)
        order_c = [at(b.consuming)] + [at(x) for x in b.extra]
        if order_c != sorted(order_c):
            raise Mismatch('lazy-order', '%s: the consuming step and the specs evaluated inside it are not listed in this order:\n%s' % (where, show))
        n_expected = len(b.above) + 1 + len(evaluated) + len(inner) + (1 if caught_by_wrapper else 0) + (1 if via is not None else 0) + len(b.extra)
        if len(spec_lines) != n_expected:
            raise Mismatch('lazy-duplicate-line' if len(spec_lines) > n_expected else 'path-spec-missing',
                           '%s: %d Spec lines for %d evaluated specs:\n%s' % (where, len(spec_lines), n_expected, show))
    # the innermost failing spec is shown with the item it received
    innermost = sub if b.alts is not None and wrapped is not b.alts[-1].raised else inner[-1]
    idx = at(innermost)
    item = item_name(recipe)
    above = [p_[3] for p_ in parsed[:idx] if p_[2] == 'Target']
    if not above or above[-1] != item:
        raise Mismatch('innermost-target', '%s: the failing sub-spec received %s but the target shown above it is %r:\n%s'
                       % (where, item, above[-1] if above else None, show))
    if b.alts is not None:
        check_alternatives(parsed, at, sub, b.alts, wrapped, where, show)
        ctx.label('branching-sub')
        if not b.eager:
            ctx.label('lazy-branch-ends-in-nested-branch')
    check_final_error(tail, wrapped, where, show)
    if mode == 'translated':
        # F110.  Statement: the trace goes 'down to the innermost spec that failed, shows for that spec the target it actually
        # received'; that the consuming step answered the failure with an error of its own does not make the failure its own:
        # the levels down to the failing sub-spec are listed (above), and the error raised there - which is not the one that
        # leaves glom() - is shown where it was raised: below the spec that raised it, before any other spec is named
        if b.alts is None:
            if sub.raised is None:
                raise HarnessBug('the sub-spec did not fail')
            lo = at(inner[-1])
            hi = min([i_ for i_, _ in spec_lines if i_ > lo] or [len(parsed)])
            if not any(p_[2] == 'error' and p_[3] == exc_line(sub.raised) for p_ in parsed[lo + 1:hi]):
                raise Mismatch('branch-error-missing', '%s: the error raised lazily by %s (%s), which %r answered with an error of its own, '
                               'is not shown below the spec that raised it:\n%s' % (where, fmtval(inner[-1], 0)[:60], exc_line(sub.raised)[:100], b.consuming, show))
        if isinstance(b.cons, Translator):
            new = b.cons.new
            if new is None or b.cons.caught is None:
                raise HarnessBug('the translating consumer caught nothing')
            if not caught_by_wrapper and not (type(wrapped) is type(new) and wrapped.args == new.args):
                raise Mismatch('final-line', '%s: the error that left glom() is %r, the consuming step raised %r' % (where, wrapped, new))
        elif not caught_by_wrapper and type(wrapped).__name__ != {'or-matcherror': 'MatchError'}.get(recipe['trans'], 'CoalesceError'):
            raise HarnessBug('the consuming step %r did not raise an error of its own: %r' % (b.consuming, wrapped))
        ctx.label('translated-lazy-failure', 'trans-' + recipe['trans'])
    # the mark that closes the lazily failing branch (a branch of the Iter, followed by the branch of the consuming step)
    # belongs on an entry of several lines: the message of the lazily raised error when that is not the error that leaves
    # glom(), else the repr of the spec that raised it (F109)
    if not b.eager and b.alts is None and sub.kind in ('glomerror', 'valueerror') and \
            ('msg' if wrapped is not sub.raised else 'spec') in recipe.get('ml', ()):
        ctx.label('lazy-branch-closed-on-multiline-entry')
    label_multiline(ctx, recipe, True)
    ctx.label(*['stage-' + k_ for k_ in b.kinds])
    ctx.label(*['fails-in-stage:' + k_ for k_ in ([recipe['how']] if recipe['how'] in KEYED_STAGES else [])])
    if recipe.get('also'):
        ctx.label('two-lazy-stages', 'second-stage-spec-' + recipe['also'][1])
    ctx.label('lazy-' + recipe['how'])
    ctx.label('wrap-' + recipe['wrap'])
    if recipe['mid']:
        ctx.label('steps-between')
    ctx.nontrivial(True)
    ctx.outcome([ADDR.sub('', repr(full))[:140], type(wrapped).__name__])



# ---------------------------------------------------------------------------
# an Iter whose stream is consumed by the ENCLOSING spec (not by a later chain step): Invoke / Call arguments, Fold;
# First(key), which evaluates its key spec on the items of the stream; a plain dict around Iter(sub).windowed(n)

class _ConsumeAll(object):
    """list() with a short, address-free repr (truncated trace lines are compared by prefix)"""
    __name__ = 'consume_all'

    def __call__(self, it):
        return list(it)

    def __repr__(self):
        return 'consume_all'


consume_all = _ConsumeAll()
EAGER_ENCLOSURES = ('first', 'iter-first', 'dict-windowed')


def gen_enclosed(draw):
    S_ = st.sampled_from
    r = {'pre': draw(S_([0, 1, 2])), 'fail': draw(S_(['path', 'tstep', 'glomerror', 'valueerror'])), 'failat': draw(S_([0, 1])),
         'how': draw(S_(['iter', 'iter', 'map'])),
         'enclose': draw(S_(['invoke', 'call', 'fold', 'invoke-in-dict', 'first', 'first', 'iter-first', 'dict-windowed', 'dict-windowed'])),
         'post': draw(S_([0, 1])), 'sub': gen_subshape(draw)}
    if r['enclose'] in ('first', 'iter-first'):
        r['keychain'] = draw(S_([0, 1]))        # the key is the failing spec itself / a chain that ends in it
    return r


def check_enclosed(recipe, ctx):
    from glom import Fold
    from glom.streaming import First
    sub, alts = build_sub(recipe, recipe['failat'])
    kind = recipe['enclose']
    inner = inner_specs(sub, alts)
    if kind in ('first', 'iter-first'):
        # First(key): "key ... can also be a glomspec" (docstring of Iter.first); the items before the failing one
        # give a falsy key (the item itself, an empty Named) and are passed over
        it = None
        key_step = OkStep(50)
        key = (key_step, sub) if recipe.get('keychain') else sub
        enc = First(key) if kind == 'first' else Iter().first(key)
        below = ([enc] if kind == 'first' else [enc, enc[0], enc[1]]) + ([key, key_step] if recipe.get('keychain') else [])
    elif kind == 'dict-windowed':
        # windowed(n) pulls n - 1 items while the Iter is evaluated: the failing item is among them
        it = (Iter(sub) if recipe['how'] == 'iter' else Iter().map(sub)).windowed(recipe['failat'] + 2)
        enc = {'k': it}
        below = [enc, it]
    else:
        it = Iter(sub) if recipe['how'] == 'iter' else Iter().map(sub)
        enc = {'invoke': lambda: Invoke(consume_all).specs(it), 'call': lambda: Call(consume_all, args=(it,)),
               'fold': lambda: Fold(it, list, op=lambda acc, v: acc + [v]),
               'invoke-in-dict': lambda: {'k': Invoke(consume_all).specs(it)}}[kind]()
        below = [enc] + ([enc['k']] if kind == 'invoke-in-dict' else []) + [it]
    steps = [OkStep(i) for i in range(recipe['pre'])] + [Probe(77, 'list'), enc] + [OkStep(30 + i) for i in range(recipe['post'])]
    full = tuple(steps)
    target = Named('root-target')
    where = 'spec=%s' % ADDR.sub('', repr(full))[:300]
    try:
        glom.glom(target, full)
        raise HarnessBug('enclosed lazy spec does not fail')
    except HarnessBug:
        raise
    except GlomError as e:
        err = e
    except Exception:
        ctx.label('not-wrapped')
        return
    wrapped = err.__dict__.get('_GlomError__wrapped', err)
    text = str(err)
    lines, parsed, tail, one_line = parse_trace(text, where)
    if one_line:
        ctx.label('one-line-closed-branch')
    spec_lines, at = locator(parsed, where, text)
    path_specs = [full] + steps[:recipe['pre'] + 1] + below + inner
    order = [at(x) for x in path_specs]
    if order != sorted(order):
        raise Mismatch('lazy-order', '%s: chain -> steps -> enclosing spec -> Iter -> sub-spec are not listed in this order:\n%s' % (where, text))
    for x in steps[recipe['pre'] + 2:]:
        full_ = fmtval(x, 0)
        if any(shown_matches(shown, full_) for _, shown in spec_lines):
            raise Mismatch('stale-spec-line', '%s: the step %r after the failing one was never evaluated but is listed:\n%s' % (where, x, text))
    if kind in EAGER_ENCLOSURES:
        # nothing here is raised lazily: the key runs inside First, windowed() pulls the item inside the Iter
        check_exact_specs(parsed, path_specs, where, text, 'every level from the chain down to the failing spec was being evaluated when it raised')
        # (an Iter in whose evaluation an item completed before the failing one is drawn like a lazily failing one, with the
        # failing item as its single branch: see check_lazy; the levels ABOVE the Iter are plain in every case)
        below_too = not (kind == 'dict-windowed' and recipe['failat'] > 0)
        check_plain_levels(parsed, [at(x) for x in [full] + steps[:recipe['pre'] + 1] + (below if below_too else below[:-1]) +
                                    (inner if alts is None and below_too else [])], where, text,
                           'the chain, its steps and the enclosing spec' + (' and the levels below' if below_too else ''))
    innermost = sub if alts is not None and wrapped is not alts[-1].raised else inner[-1]
    item = 'item77_' + 'ab'[recipe['failat']]
    above = [p_[3] for p_ in parsed[:at(innermost)] if p_[2] == 'Target']
    if not above or above[-1] != item:
        raise Mismatch('innermost-target', '%s: the failing sub-spec received %s but the target shown above it is %r:\n%s'
                       % (where, item, above[-1] if above else None, text))
    if alts is not None:
        check_alternatives(parsed, at, sub, alts, wrapped, where, text)
        ctx.label('branching-sub')
    check_final_error(tail, wrapped, where, text)
    ctx.label('enclose-' + kind)
    if kind in ('first', 'iter-first'):
        ctx.label('first-key-fails')
        if recipe.get('keychain') or alts is not None:
            ctx.label('first-key-composite')
    ctx.nontrivial(True)
    ctx.outcome([ADDR.sub('', repr(full))[:140], type(wrapped).__name__])



# ---------------------------------------------------------------------------
# alternatives of a Match list / dict pattern: an item that failed an earlier alternative and then matched a later
# one is done with; only the alternatives of the item that was finally rejected belong to the error

class NameEnds(object):
    """predicate with an address-free repr: the name of a Named item ends with the given letter"""
    def __init__(self, letter):
        self.letter = letter
        self.__name__ = 'ends_' + letter

    def __call__(self, t):
        return getattr(t, 'name', str(t)).endswith(self.letter)

    def __repr__(self):
        return 'ends_' + self.letter


def gen_matchalts(draw):
    S_ = st.sampled_from
    return {'shape': draw(S_(['list', 'list', 'dict'])), 'good_before': draw(S_([1, 1, 2, 3])), 'wrap': draw(S_(['none', 'coalesce', 'tuple'])),
            'first_alt': draw(S_(['literal', 'type']))}


def check_matchalts(recipe, ctx):
    from glom import Regex
    n_good = recipe['good_before']
    good = ['good%d_a' % i for i in range(n_good)]
    if recipe['shape'] == 'list':
        target = [Named(g) for g in good] + [Named('bad_b')]
        first = 'never-equal' if recipe['first_alt'] == 'literal' else int
        pattern = [first, NameEnds('a')]
        stale_values = list(good)
    else:
        target = dict((g, 1) for g in good)
        target['bad_b'] = 2
        pattern = {Regex('zzz.*'): int, str: M == 1}
        stale_values = ["'%s'" % g for g in good]
    spec = Match(pattern)
    if recipe['wrap'] == 'coalesce':
        spec = Coalesce(spec, 'missing_alt')
    elif recipe['wrap'] == 'tuple':
        spec = (T, spec)
    where = 'glom(%r, %r)' % (target, spec)
    try:
        glom.glom(target, spec)
        raise HarnessBug('match pattern does not fail')
    except HarnessBug:
        raise
    except GlomError as e:
        text = str(e)
    lines = text.split('\n')
    parsed = [p_ for p_ in (parse_line(l) for l in lines[2:]) if p_ is not None]
    targets = [p_[3] for p_ in parsed if p_[2] == 'Target']
    for sv in stale_values:
        if sv in targets:
            raise Mismatch('stale-spec-line', '%s: the item %s matched (after failing an earlier alternative) and has no part in the '
                           'error, but the trace lists it with the alternative it failed:\n%s' % (where, sv, text))
    if not any(('bad_b' in t_) for t_ in targets):
        raise Mismatch('innermost-target', '%s: the rejected item is not shown:\n%s' % (where, text))
    ctx.label('shape-' + recipe['shape'], 'wrap-' + recipe['wrap'])
    ctx.nontrivial(True)
    ctx.outcome([recipe['shape'], n_good])



def is_call_args_lazy(recipe, mm):
    """known finding F36: Call(f, args=(Iter(sub),)) - the arguments are evaluated in a finished, unchained scope between
    the Call and the Iter, so a failure raised while f consumes the stream is never recorded on the way up"""
    return recipe.get('enclose') == 'call' and mm.kind == 'path-spec-missing'


CLASSIFIERS = {'F36-call-args-lazy': is_call_args_lazy}

SUBS = [
    Sub('trace', check, gen=gen, quick=3000, thorough=10000,
        floors={'branch-point': 0.1, 'recovered-branch': 0.1, 'recovered-after-3plus-abandoned': 0.02, 'branch-point-3plus-abandoned': 0.03, 'depth-3': 0.05, 'linear-exact': 0.1, 'target-contains-itself': 0.01, 'exception-with-own-str': 0.03, 'fails-in-argument-position': 0.02,
                # entries of several physical lines (F109): an abandoned branch that ends in an error message of several lines (the
                # closing X belongs on the FIRST line of that entry); error / Spec / Target entries of several lines in the trace
                'abandoned-branch-ends-in-multiline-error': 0.08, 'multiline-error-entry': 0.145, 'multiline-spec-entry': 0.063,
                'multiline-target-entry': 0.033}),
    Sub('lazy', check_lazy, gen=gen_lazy, quick=2400, thorough=3000, floors={'steps-between': 0.2, 'lazy-map': 0.05, 'fails-after-consumer': 0.12, 'recovered-lazy-failure': 0.09, 'windowed-eager': 0.05,
                'lazy-map-windowed': 0.04, 'branching-sub': 0.09, 'lazy-branch-ends-in-nested-branch': 0.06, 'one-line-closed-branch': 0.01,
                # a step after the consumer fails, per kind of stage whose spec ran (and completed) on the items while the consumer ran
                'after-consumer:iter': 0.05, 'after-consumer:map': 0.045, 'after-consumer:filter': 0.013, 'after-consumer:unique': 0.02,
                'after-consumer:takewhile': 0.015, 'after-consumer:dropwhile': 0.013, 'two-lazy-stages': 0.15,
                'fails-in-stage:filter': 0.01, 'fails-in-stage:unique': 0.025, 'fails-in-stage:takewhile': 0.008, 'fails-in-stage:dropwhile': 0.011,
                # the consuming step answers the lazily raised failure with an error of its own (F110), per kind of consuming step
                'translated-lazy-failure': 0.09, 'trans-coalesce': 0.028, 'trans-or-matcherror': 0.022, 'trans-callable': 0.013,
                'trans-callable-from': 0.013, 'trans-coalesce-skipexc': 0.007,
                # entries of several physical lines (F109); '...closed-on...': the X that closes the lazily failing branch belongs on one
                'lazy-multiline-message': 0.097, 'lazy-multiline-spec': 0.148, 'lazy-multiline-item': 0.105,
                'lazy-branch-closed-on-multiline-entry': 0.015}),
    Sub('matchalts', check_matchalts, gen=gen_matchalts, quick=300, thorough=1000),
    Sub('enclosed', check_enclosed, gen=gen_enclosed, quick=600, thorough=1500,
        floors={'first-key-fails': 0.2, 'first-key-composite': 0.12, 'enclose-dict-windowed': 0.1, 'branching-sub': 0.15}),
    fuzzrun.fuzz_sub('fuzz-trace', 'hyp:c05:trace', runs=30000, campaigns=4, replay_sub='trace'),
]
