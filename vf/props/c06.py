"""C06 — Non-mutating specs are pure: inputs untouched, outcome independent of history.

Each case is a history over a pool of (target, spec) pairs drawn from the non-mutating grammars of
C01 / C03 / C07 / C09 / C10 / C14 / C16 / C17: calls with a freshly built spec, calls re-using one
spec object, cache floods with distinct path strings (one step floods 10 050 at once to overflow
the path memo), PATH_STAR toggles, registrations of throw-away classes on the module-level registry
and of a meaningful handler on a Glommer, interleaved in a generated order.  'registry' pool entries
are a custom spec that asks scope[TargetRegistry].get_handler(op, target, raise_exc=False) for one of
iterate / get / keys / assign / delete on a type with or without such a handler, and calls that need
that handler ([T], Coalesce(Sum(), default=), Iter, Group, a path, '*', '**', the custom spec asking
with raise_exc=True); the probe-sandwich shape puts the probe before the call that needs the handler.
'pathkw' entries pass a caller-owned path= list to dict specs of tuple chains / T call steps / Coalesces,
'optdefaults' entries are Match dict patterns with 3-5 absent Optional keys (plain and failing defaults);
the repeat-inputs shape evaluates them again with the very same input objects.
Sub 'fold': 'vecfold' entries - a default-op fold (Sum, Sum(init=float), Fold with init int / tuple / str, Flatten, behind [T], in a
dict spec, in a Coalesce, and each as a Group aggregator) over a list / tuple of elements of an additive user class (the Bag family
below, c15's Vec family): 0 + x is x or a copy, x + <identity> is x / the other operand / a copy, += in place or rebinding;
constructed shape [x, e, (e,) y, ..] with e an empty instance / a zero vector / a literal 0; the same call two or three times, in
half of the histories with the very same element objects ('same' steps keep the target of a vecfold entry).
Sub 'exactreg': step 'xreg' registers, on the history's Glommer or (attribute class made for the history only) on the module-level
registry, a class of the history or its base (dict / list / tuple / a middle class registered earlier without exact) for one of
get / iterate / keys with one of three handlers that tag their result, exact or not; constructed: lookup of the unregistered subclass
(by the call or by a HandlerProbe), exact registration of X, the call again; the cold reference makes the same registrations in the
same order and evaluates the call first.
Extension operations (sub 'history'): 'registry' entries may ask for the handler of an operation that is no builtin one ('serialize' /
'measure': HandlerProbe with raise_exc=False or True, the handler - if any - applied to the target); step 'opreg' registers such an
operation on the history's Glommer registry (TargetRegistry.register_op(name, auto_func, exact): auto_func serving every type, only
iterable types, or none).  Constructed shape opreg-sandwich: the probe BEFORE the operation exists, register_op, the probe / the strict
lookup again (and a class looked up for the first time as control); the cold reference registers the same operations in the same order
and evaluates the call first.  (Never on the module-level registry: an operation cannot be removed again, and every Glommer made
later copies the module's operations.)

Oracles
  frame       before/after every call the structure-and-identity snapshot of the target, of the spec
              and of the caller's scope mapping is identical; so is the caller's path= list
  history     every call's canonical outcome (value or error class + message) equals the outcome of the
              same pair, under the same PATH_STAR value and the same registrations, evaluated FIRST in
              a pristine process (vf/cold.py: a fresh interpreter that has imported glom and never
              called it forks one child per reference evaluation)
  hash seed   ('optdefaults' entries) the outcome - key order of the result dict and which error included -
              also equals that of a pristine process running under another PYTHONHASHSEED
  fresh       two evaluations of one spec object return containers that are not the same object
"""
import atexit
import os
import warnings

from hypothesis import strategies as st

import glom
import glom.core
from glom import Match, Glommer, T, Coalesce, Sum, Iter, Optional, Fold, Flatten
from glom.core import TargetRegistry, UnregisteredTarget
from glom.grouping import Group

from ..runner import Sub, Mismatch, HarnessBug
from .. import targets as tg
from .. import boot
from .. import cold
from . import c01, c03, c07, c09, c10, c14, c15, c16, c17

warnings.filterwarnings('ignore', message=".*have changed behavior in glom version.*")

PROPERTY = 'C06'
RULE = ('histories of 3-12 steps over a pool of 2-4 (target, spec) pairs; steps: call / call-same-spec-object / flood n / '
        'flood 10050 / toggle PATH_STAR / register / Glommer register + call / register_op of an extension operation on the Glommer; pool '
        'entries include a custom spec probing get_handler(op, target, raise_exc=False) - builtin and extension operations - and calls '
        'needing that handler. Sub fold: a default-op fold over [x, e, y, ..] of an '
        'additive user class evaluated 2-3 times (same element objects in half of the cases). Sub exactreg: lookup of a subclass, exact '
        'registration of its registered base with another handler, the call again. Non-trivial = >= 3 steps with, before a compared '
        'call, a repeat of the same spec object, a cache flood, a toggle, a registry probe, an exact registration after a lookup or a '
        'register_op after a probe of that operation.')
ASSUMPTIONS = [
    'the pristine reference is a forked child of a fresh interpreter that imported glom but never called it (vf/cold.py)',
    'outcomes are compared canonically: structure with types and sharing pattern, error class and message with addresses stripped',
    'module-level registrations are of fresh throw-away classes (they accumulate in the worker process and must not change any outcome); '
    'those of xreg steps are of an attribute-only class made for the one history, for get only, and are repeated by the cold reference',
    'extension operations are registered on the Glommer made for the one history only, through Glommer.scope[TargetRegistry].register_op '
    '(a Glommer has no register_op of its own); the cold reference registers them on its own Glommer in the same order',
    'vecfold entries: the element classes define + / += / 0 + x themselves; what the fold returns is compared with the pristine process only, '
    'the elements must be the same objects with the same contents after every call',
]


def custom_get(obj, key):
    return ['custom-get', getattr(obj, key)]


# ---------------------------------------------------------------------------
# pool entries: deterministic builders shared with the cold server

class HandlerProbe(object):
    """custom specifier type in the style of docs/custom_spec_types.rst: asks the registry of the running call for the
    handler of one operation on its target.  strict=False is the documented "or False if raise_exc=False" form of
    TargetRegistry.get_handler, strict=True the default one ("raising UnregisteredTarget if no handler can be found").
    It reads, and changes nothing: a non-mutating spec."""

    def __init__(self, op, strict):
        self.op = op
        self.strict = strict

    def glomit(self, target, scope):
        registry = scope[TargetRegistry]
        if self.strict:
            try:
                handler = registry.get_handler(self.op, target)
            except UnregisteredTarget:
                return ['UnregisteredTarget']       # (not its message: that lists every type registered so far)
        else:
            handler = registry.get_handler(self.op, target, raise_exc=False)
            if handler is False:
                return ['no-handler']
        out = ['handler', getattr(handler, '__name__', type(handler).__name__)]
        if self.op in ('iterate', 'keys'):
            out.append(list(handler(target)))
        elif self.op in EXT_OPS:
            out.append(handler(target))         # an extension operation is there to be used
        return out

    def __repr__(self):
        return 'HandlerProbe(%r, strict=%r)' % (self.op, self.strict)


# targets of the 'registry' entries are instances of classes made for the one case (one class per tag and history; the
# cold reference makes its own): what an earlier CASE left in the worker's registry memo cannot reach them, so a
# failing history fails again when it is replayed alone
REG_TYPES = {
    'opaque': (tg.Slots, None),                 # attributes only: not iterable, no __dict__
    'intsub': (int, 5),
    'strsub': (str, 'ab'),
    'listsub': (list, [1, 2]),
    'tuplesub': (tuple, (1, 2)),
    'dictsub': (dict, {'a': 1, 'b': 2}),
    # two levels made for the history: Base(list) <- Sub(Base); the target is a Sub, Base is what gets registered
    'midlist': (list, [1, 2]),
    'middict': (dict, {'a': 1, 'b': 2}),
    'midobj': (tg.Slots, None),
}
MID_TAGS = ['middict', 'midlist', 'midobj']
REG_TAGS = sorted(t_ for t_ in REG_TYPES if t_ not in MID_TAGS)      # the one-level tags: what 'registry' entries draw from
REG_OPS = ['iterate', 'get', 'keys', 'assign', 'delete']
# extension operations (TargetRegistry.register_op "add operations beyond the builtins"): no registry has them until an
# 'opreg' step of the history registers them on the history's Glommer
EXT_OPS = ['measure', 'serialize']
REG_GET_PATH = {'opaque': 'a', 'intsub': 'real', 'strsub': 'zz', 'listsub': '1', 'tuplesub': '0', 'dictsub': 'b',
                'midlist': '1', 'middict': 'b', 'midobj': 'a'}
# forms of a call that NEEDS the handler of the operation ('strict': the custom spec asking with raise_exc=True;
# Assign / Delete themselves are outside this property's domain)
REG_FORMS = {
    'iterate': ['list', 'sumdef', 'iterall', 'group', 'strict'],
    'get': ['path', 'strict'],
    'keys': ['star', 'starstar', 'strict'],
    'assign': ['strict'],
    'delete': ['strict'],
    'measure': ['strict'],
    'serialize': ['strict'],
}
# generator-side knowledge (the labels are measured from what the probe returns): pairs without a handler on a default
# registry - non-iterables, objects that are neither mapping nor __dict__-carrying, immutable builtins
REG_UNHANDLED = [['iterate', 'opaque'], ['iterate', 'intsub'], ['keys', 'opaque'], ['keys', 'intsub'], ['keys', 'listsub'],
                 ['keys', 'tuplesub'], ['keys', 'strsub'], ['assign', 'intsub'], ['assign', 'tuplesub'], ['assign', 'strsub'],
                 ['delete', 'intsub'], ['delete', 'tuplesub'], ['delete', 'strsub']]


def reg_class(tag, env, which='self'):
    """the class made for this history under a tag ('self': the class of the target) or the type it derives from ('base':
    the builtin / tg.Slots for the one-level tags, the history's own middle class for the mid* tags)"""
    base = REG_TYPES[tag][0]
    if tag in MID_TAGS:
        mid = env.get(tag + ':base')
        if mid is None:
            mid = env[tag + ':base'] = type(tag.capitalize() + 'Base', (base,), {'__slots__': ()})
        base = mid
    if which == 'base':
        return base
    cls = env.get(tag)
    if cls is None:
        name = tag.capitalize()
        if REG_TYPES[tag][0] is tg.Slots:
            def rep(self, name=name):
                return '%s(a=%r, b=%r)' % (name, self.a, self.b)
        else:
            def rep(self, name=name, base=REG_TYPES[tag][0]):
                return '%s(%s)' % (name, base.__repr__(self))
        cls = env[tag] = type(name, (base,), {'__slots__': (), '__repr__': rep})
    return cls


def reg_target(tag, env):
    cls = reg_class(tag, env)
    value = REG_TYPES[tag][1]
    if value is None:
        obj = cls()
        obj.a = 1
        obj.b = [1, 2]
        return obj
    return cls(value)


# ---- registrations made DURING a history (step 'xreg'): handlers that show in the outcome which one was used
def _plain_get(obj, key):
    if isinstance(obj, dict):
        return obj[key]
    if isinstance(obj, (list, tuple)):
        return obj[int(key)]
    return getattr(obj, key)


def _plain_keys(obj):
    if isinstance(obj, dict):
        return list(dict.keys(obj))
    if isinstance(obj, (list, tuple)):
        return list(range(len(obj)))
    return [k_ for k_ in ('a', 'b') if hasattr(obj, k_)]


def _plain_items(obj):
    return list(obj) if hasattr(type(obj), '__iter__') else []


def get_h1(obj, key):
    return ['h1', _plain_get(obj, key)]


def get_h2(obj, key):
    return ['h2', _plain_get(obj, key)]


def get_h3(obj, key):
    return ['h3', _plain_get(obj, key)]


def iterate_h1(obj):
    return iter(['h1'] + _plain_items(obj))


def iterate_h2(obj):
    return iter(_plain_items(obj)[::-1] + ['h2'])


def iterate_h3(obj):
    return iter(['h3'])


def keys_h1(obj):
    return _plain_keys(obj)[::-1]


def keys_h2(obj):
    return _plain_keys(obj)[:1]


def keys_h3(obj):
    return _plain_keys(obj) + _plain_keys(obj)[:1]


HANDLERS = {'get': {'h1': get_h1, 'h2': get_h2, 'h3': get_h3},
            'iterate': {'h1': iterate_h1, 'h2': iterate_h2, 'h3': iterate_h3},
            'keys': {'h1': keys_h1, 'h2': keys_h2, 'h3': keys_h3}}
# operations an 'xreg' step may register per tag.  On the MODULE-level registry only classes made for the history are ever
# registered, and only for 'get' on the attribute-only midobj: a class with an 'iterate' / 'keys' handler would be listed
# by name in the UnregisteredTarget messages of every later case of the process
XREG_OPS = {'listsub': ['iterate', 'get'], 'tuplesub': ['iterate', 'get'], 'dictsub': ['get', 'keys', 'iterate'],
            'midlist': ['iterate', 'get'], 'middict': ['get', 'keys', 'iterate'], 'midobj': ['get', 'keys'],
            'opaque': ['get', 'keys'], 'intsub': ['get'], 'strsub': ['get', 'iterate']}
XREG_DEFAULT_TAGS = ['dictsub', 'listsub', 'tuplesub']      # subclasses of default types of every registry


# ---- extension operations (step 'opreg'): what auto_func answers per type, and handlers that show which one was used
def ext_any(obj):
    return ['ext-any', _plain_items(obj)]


def ext_iter(obj):
    return ['ext-iter', len(_plain_items(obj))]


def auto_any(type_obj):
    return ext_any


def auto_iterable(type_obj):
    return ext_iter if callable(getattr(type_obj, '__iter__', None)) else False


EXT_AUTO = {'any': auto_any, 'iterable': auto_iterable, 'none': None}     # (None: the documented default, no type is supported)


def apply_reg(registry, reg, env):
    """one registration of a history on `registry` (the glom module or a Glommer); shared with the cold server.
    ['slots']: tg.Slots, get=custom_get (step 'greg');  [tag, which, op, handler name, exact] (step 'xreg');
    ['op', name, auto_func name, exact]: register_op on the Glommer's registry (step 'opreg')"""
    if reg[0] == 'slots':
        registry.register(tg.Slots, get=custom_get)
        return
    if reg[0] == 'op':
        if registry is glom or reg[1] not in EXT_OPS:
            raise HarnessBug('register_op(%r) on %r' % (reg[1], registry))
        registry.scope[TargetRegistry].register_op(reg[1], auto_func=EXT_AUTO[reg[2]], exact=bool(reg[3]))
        return
    tag, which, op, hname, exact = reg
    cls = reg_class(tag, env, which)
    if registry is glom and (op != 'get' or tag != 'midobj'):
        raise HarnessBug('module-level registration of %r for %r' % (cls, op))
    kw = {op: HANDLERS[op][hname]}
    if exact:
        kw['exact'] = True
    registry.register(cls, **kw)


def apply_regs(registry, regs, env):
    for reg in regs:
        apply_reg(registry, reg, env)


def reg_spec(op, form, tag):
    if form == 'probe':
        return HandlerProbe(op, False)
    if form == 'strict':
        return HandlerProbe(op, True)
    if form not in REG_FORMS[op]:
        raise ValueError((op, form))
    if form == 'list':
        return [T]
    if form == 'sumdef':
        return Coalesce(Sum(), default='n/a')
    if form == 'iterall':
        return Iter().all()
    if form == 'group':
        return Group([T])
    if form == 'path':
        return REG_GET_PATH[tag]
    return {'star': '*', 'starstar': '**'}[form]


def c16_item(v):
    """C16's recipe items: plain numbers, ['F', n, d] Fractions, ['D', text] Decimals (its ['id', path] placeholder - the
    address of a spec object, another number in every process - is replaced by the generator below)"""
    if not isinstance(v, list):
        return v
    if v[0] == 'F':
        from fractions import Fraction
        return Fraction(v[1], v[2])
    if v[0] == 'D':
        from decimal import Decimal
        return Decimal(v[1])
    if v[0] == 'V' and hasattr(c16, 'VECS'):
        return c16.VECS[v[1]](*v[2:])       # c16's vectors of a sum()-friendly class (its Avg inputs)
    raise ValueError('C16 item %r' % (v,))


# ---- a caller-supplied path= list (the call's starting path) over dict specs whose values are tuple chains, T call steps
# and Coalesces: the list is an input of the call like target and scope mapping
PATH_TARGET = ['dict', [['a', ['dict', [['b', ['s', 'hello']], ['n', ['i', 3]]]]], ['c', ['list', [['i', 1], ['i', 2], ['i', 1]]]], ['s', ['s', 'str']]]]
PATH_CHAINS = [['a', 'b'], ['a', 'n'], ['c'], ['a'], ['s'], ['c', '[T]'], ['a', 'b', '[T]']]
PATH_TCALLS = ['upper', 'count', 'get', 'chain-upper']


def path_value(v):
    if v[0] == 'chain':
        return tuple([T] if s_ == '[T]' else s_ for s_ in v[1])
    if v[0] == 'tcall':
        return {'upper': lambda: T['a']['b'].upper(), 'count': lambda: T['c'].count(1), 'get': lambda: T['a'].get('b', 'dflt'),
                'chain-upper': lambda: ('a', T['b'].upper())}[v[1]]()
    if v[0] == 'coalesce':
        return Coalesce('zz', T['nope']) if v[1] == 'fail' else Coalesce('zz', 'c')
    if v[0] == 'plain':
        return v[1]
    raise ValueError(v)


# ---- absent Optional keys of a Match dict pattern with defaults (plain values, T defaults that fail on the target)
OPT_NAMES = ['alpha', 'beta', 'gamma', 'delta', 'epsilon', 'zeta', 'eta', 'theta', 'iota', 'kappa', 'k1', 'k2', 'x', 'y']


def opt_pattern(keys):
    pat = {}
    for name, d in keys:
        pat[Optional(name, default=(T[d[1]] if d[0] == 't' else d[1]))] = object
    return Match(pat)


# ---- folds with the default (in-place) op over elements of additive user classes: the elements belong to the target
class Bag(object):
    """a small additive value type: + concatenates, an empty / zero operand is the identity, += works in place.
    Class attributes pick the idioms: RADD0 (0 + x is x itself - what makes sum() work without a copy), ADD_IDENTITY
    ('copy': x + <empty> is a new object; 'self': it is x; 'either': whichever operand is not empty), IADD ('inplace':
    the item list is extended; 'rebind': a new item list is bound)"""
    RADD0 = True
    ADD_IDENTITY = 'copy'
    IADD = 'inplace'

    def __init__(self, items=()):
        self.items = list(items)

    def __bool__(self):
        return bool(self.items)

    def __add__(self, other):
        if not isinstance(other, Bag) and other:
            return NotImplemented
        if not other:
            return self if self.ADD_IDENTITY in ('self', 'either') else type(self)(self.items)
        if not self and self.ADD_IDENTITY == 'either':
            return other
        return type(self)(self.items + other.items)

    def __radd__(self, other):
        if isinstance(other, Bag) or other:
            return NotImplemented
        return self if self.RADD0 else type(self)(self.items)

    def __iadd__(self, other):
        if not isinstance(other, Bag) and other:
            return NotImplemented
        extra = list(other.items) if isinstance(other, Bag) else []
        if self.IADD == 'rebind':
            self.items = self.items + extra
        else:
            self.items.extend(extra)
        return self

    def __repr__(self):
        return '%s(%r)' % (type(self).__name__, self.items)


BAGS = {}
for _name, _radd0, _ident, _iadd in [('bag-plain', False, 'copy', 'inplace'), ('bag-radd0', True, 'copy', 'inplace'),
                                     ('bag-addself', True, 'self', 'inplace'), ('bag-addeither', True, 'either', 'inplace'),
                                     ('bag-addself-rebind', True, 'self', 'rebind')]:
    BAGS[_name] = type('Bag' + ''.join(w.capitalize() for w in _name.split('-')[1:]), (Bag,),
                       {'RADD0': _radd0, 'ADD_IDENTITY': _ident, 'IADD': _iadd})
FOLD_VARIANTS = sorted(BAGS) + ['vec-' + k_ for k_ in sorted(c15.VECS)]
# spec forms: every entry point that folds with the default op, plain and as a Group aggregator
FOLD_FORMS = {
    'sum': lambda: Sum(),
    'sum-float': lambda: Sum(init=float),
    'fold': lambda: Fold(T, init=int),
    'fold-tuple': lambda: Fold(T, init=tuple),
    'fold-str': lambda: Fold(T, init=str),
    'flatten': lambda: Flatten(),
    'chain-sum': lambda: ([T], Sum()),
    'dict-sum': lambda: {'total': Sum(), 'n': len},
    'sumdef': lambda: Coalesce(Sum(), default='n/a'),
    'group-sum': lambda: Group(Sum()),
    'group-fold': lambda: Group(Fold(T, init=int)),
    'group-fold-tuple': lambda: Group(Fold(T, init=tuple)),
    'group-flatten': lambda: Group(Flatten()),
}
FOLD_INIT = {'sum': int, 'sum-float': float, 'fold': int, 'fold-tuple': tuple, 'fold-str': str, 'flatten': list, 'chain-sum': int,
             'dict-sum': int, 'sumdef': int, 'group-sum': int, 'group-fold': int, 'group-fold-tuple': tuple, 'group-flatten': list}
FOLD_FORMS_VEC = ['sum', 'sum', 'sum-float', 'fold', 'chain-sum', 'dict-sum', 'sumdef', 'group-sum', 'group-sum', 'group-fold']   # (Vec: 0 + v only)
FOLD_FORMS_BAG = FOLD_FORMS_VEC + ['fold-tuple', 'fold-str', 'group-fold-tuple', 'flatten', 'group-flatten']


def fold_elems(r):
    """the elements of a 'vecfold' recipe, newly built: a list of ints per element (the items of a Bag / the components
    of a c15 Vec) or the literal 0"""
    v = r['variant']
    if v.startswith('vec-'):
        cls = c15.VECS[v[4:]]
        return [0 if xs == 0 else cls(*xs) for xs in r['elems']]
    return [0 if xs == 0 else BAGS[v](xs) for xs in r['elems']]


def fold_hazard(r):
    """plain Python, on a copy of the elements: the fold's start value + first element IS the first element, adding the
    following element(s) hands that same object back (identity operands), and a further element follows - so the running
    total is an object of the target when that element arrives"""
    import operator
    elems = fold_elems(r)
    if len(elems) < 3:
        return False
    try:
        acc = operator.iadd(FOLD_INIT[r['form']](), elems[0])
        if acc is not elems[0] or isinstance(acc, int):
            return False
        i = 1
        while i < len(elems) and (acc + elems[i]) is acc:
            i += 1
    except TypeError:
        return False
    return 1 < i < len(elems)


def build_entry(kind, r, env=None):
    """(target, spec, kwargs) - a pure function of the recipe (env: the classes made for the running history)"""
    if kind == 'pathkw':
        spec = dict((name, path_value(v)) for name, v in r['values'])
        return tg.build(PATH_TARGET).obj, spec, {'path': list(r['start'])}
    if kind == 'optdefaults':
        return dict((k_, 7) for k_ in r['present']), opt_pattern(r['keys']), {}
    if kind == 'registry':
        return reg_target(r['type'], {} if env is None else env), reg_spec(r['op'], r['form'], r['type']), {}
    if kind == 'vecfold':
        elems = fold_elems(r)
        return (tuple(elems) if r['container'] == 'tuple' else elems), FOLD_FORMS[r['form']](), {}
    if kind == 'c03':
        return tg.build(r['target']).obj, c03.build(r['spec'], []), {}
    if kind == 'c01':
        steps = [(op, seg) for op, seg in r['steps']]
        sp = 'str' if 'str' in c01.spellings(steps) else 'path'
        return tg.build(r['target']).obj, c01.make_spec(steps, sp), {}
    if kind == 'c09':
        # (c09's recipes extend the grammar of vf.targets by value leaves of its own: its builder, where it has one)
        target = c09.tbuild(r['target']) if hasattr(c09, 'tbuild') else tg.build(r['target']).obj
        return target, Match(c09.build_pat(r['pattern'])), {}
    if kind == 'c10':
        # (c10's recipes extend the grammar of vf.targets by value classes of its own: its builder, where it has one)
        target = c10.bval(r['target']) if hasattr(c10, 'bval') else tg.build(r['target']).obj
        return target, Match(c10.build_tree(r['tree'], [], r['build'])), {}
    if kind == 'c14':
        return c14.build_graph(r['graph']).obj, '.'.join(r['segs']), {}
    if kind == 'c16':
        return [c16_item(v) for v in r['items']] or [4], Group(c16.build(r['tree'])), {}
    if kind == 'c17':
        return list(r['source']['items']), c17.build_iter(r).all(), {}
    if kind == 'c07':
        kw = {'scope': dict(r['caller'])} if r['caller'] else {}
        return [1, 2], c07.build(r['tree']), kw
    if kind == 'slotpath':
        return tg.build(r['target']).obj, r['path'], {}
    if kind == 'raiser':
        # a callable raising an exception of a class NAMED Timeout; which class that is (its base) differs between entries
        import builtins
        cls = type('Timeout', (getattr(builtins, r['base']),), {})

        def site(t, cls=cls):
            raise cls('timed out')
        return {'a': 1}, {'k': site}, {}
    if kind == 'scopelit':
        # a container LITERAL in argument position is a template: every evaluation builds a new container from it
        lit = tg.build(r['lit']).obj
        if r['form'] == 'svar':
            return 'tgt', (glom.S(v=lit), {'prev': Coalesce(glom.S.v['last'], default='<none>'), 'cur': glom.A.v['last']}), {}
        if r['form'] == 'default':
            return {}, Coalesce('items', default=lit), {}
        return {}, ('nope', 'nope'), {'default': lit}
    raise ValueError(kind)


def gen_registry(draw, pair=None, probe=None):
    op, tag = pair or (draw(st.sampled_from(REG_UNHANDLED)) if draw(st.booleans()) else
                       [draw(st.sampled_from(REG_OPS + EXT_OPS)), draw(st.sampled_from(REG_TAGS))])
    if probe is None:
        probe = draw(st.booleans())
    form = 'probe' if probe else draw(st.sampled_from(REG_FORMS[op]))
    return {'kind': 'registry', 'recipe': {'op': op, 'type': tag, 'form': form}}


def gen_pathkw(draw):
    def value(kinds):
        k = draw(st.sampled_from(kinds))
        if k == 'chain':
            return ['chain', draw(st.sampled_from(PATH_CHAINS))]
        if k == 'tcall':
            return ['tcall', draw(st.sampled_from(PATH_TCALLS))]
        if k == 'plain':
            return ['plain', draw(st.sampled_from(['a.b', 'c', 's']))]
        return ['coalesce', k[9:]]
    # by construction: a value that takes steps (tuple chain / T call) first, then whatever, a failing Coalesce last in half
    # of the cases (its error reports the path it was reached by)
    values = [value(['chain', 'tcall'])]
    for _ in range(draw(st.sampled_from([0, 1, 1, 2]))):
        values.append(value(['chain', 'tcall', 'plain', 'coalesce-ok', 'coalesce-fail']))
    if draw(st.booleans()):
        values.append(['coalesce', 'fail'])
    names = ['x', 'y', 'z', 'w', 'v']
    return {'kind': 'pathkw', 'recipe': {'start': draw(st.sampled_from([[], ['start'], ['p', 0]])),
                                         'values': [[names[i], v] for i, v in enumerate(values)]}}


def gen_optdefaults(draw):
    n = draw(st.sampled_from([3, 4, 5]))
    names = draw(st.permutations(OPT_NAMES))[:n]
    failing = draw(st.sampled_from(['none', 'none', 'some', 'all']))
    keys = []
    for i, name in enumerate(names):
        fail = failing == 'all' or (failing == 'some' and (i < 2 or draw(st.booleans())))
        keys.append([name, ['t', 'missing-' + name] if fail else ['i', i + 1]])
    if failing == 'some':
        keys = draw(st.permutations(keys))
    # at least three keys stay absent
    present = [name for name in names[3:] if draw(st.booleans())]
    return {'kind': 'optdefaults', 'recipe': {'keys': [list(k_) for k_ in keys], 'present': present}}


def gen_vecfold(draw, shape=None):
    """a default-op fold over elements of an additive user class.  shape 'x-e-y' (by construction): a first element, then
    one or two identity operands (an empty instance, a zero vector, a literal 0), then one to three more elements"""
    variant = draw(st.sampled_from(FOLD_VARIANTS))
    if shape is None:
        shape = draw(st.sampled_from(['x-e-y', 'free', 'free']))
    is_vec = variant.startswith('vec-')
    dim = draw(st.sampled_from([1, 2, 3]))

    def full():
        if is_vec:
            return [draw(st.sampled_from([-2, -1, 1, 2, 3, 5])) for _ in range(dim)]
        return [draw(st.sampled_from(range(1, 10))) for _ in range(draw(st.sampled_from([1, 1, 2, 3])))]

    def identity():
        if is_vec:
            return [0] * dim
        return 0 if draw(st.sampled_from(range(4))) == 0 else []
    if shape == 'x-e-y':
        elems = [full()] + [identity() for _ in range(draw(st.sampled_from([1, 1, 2])))] + \
            [full() for _ in range(draw(st.sampled_from([1, 1, 2, 3])))]
        if draw(st.sampled_from(range(4))) == 0:
            elems.append(identity())
    else:
        elems = [identity() if draw(st.sampled_from(range(3))) == 0 else full() for _ in range(draw(st.sampled_from(range(6))))]
    return {'kind': 'vecfold', 'recipe': {'variant': variant, 'elems': elems, 'form': draw(st.sampled_from(FOLD_FORMS_VEC if is_vec else FOLD_FORMS_BAG)),
                                          'container': draw(st.sampled_from(['list', 'list', 'tuple']))}}


def gen_entry(draw):
    kind = draw(st.sampled_from(['c03', 'c03', 'c01', 'c09', 'c10', 'c14', 'c14', 'c16', 'c17', 'c07', 'c07', 'slotpath', 'slotpath', 'scopelit',
                                 'scopelit', 'registry', 'pathkw', 'optdefaults']))
    if kind == 'registry':
        return gen_registry(draw)
    if kind == 'pathkw':
        return gen_pathkw(draw)
    if kind == 'optdefaults':
        return gen_optdefaults(draw)
    if kind == 'scopelit' and draw(st.booleans()):
        return {'kind': 'raiser', 'recipe': {'base': draw(st.sampled_from(['ValueError', 'KeyError', 'LookupError', 'RuntimeError']))}}
    if kind == 'scopelit':
        form = draw(st.sampled_from(['svar', 'svar', 'default']))
        lits = [['dict', []], ['dict', [['seed', ['i', 0]]]]] if form == 'svar' else \
            [['dict', []], ['list', []], ['list', [['i', 1]]], ['dict', [['seed', ['i', 0]]]], ['set', []]]
        return {'kind': kind, 'recipe': {'form': form, 'lit': draw(st.sampled_from(lits))}}
    if kind == 'slotpath':
        # attribute objects WITHOUT an instance __dict__ (a subclass of a slot-only class): a Glommer registration for
        # the base class decides their 'get' handler
        inner = ['slotsc', [['b', ['i', draw(st.integers(0, 9))]]]]
        return {'kind': kind, 'recipe': {'target': [draw(st.sampled_from(['slotsc', 'slots'])), [['a', inner], ['c', ['s', 'x']]]],
                                         'path': draw(st.sampled_from(['a.b', 'a', 'c', 'a.zz']))}}
    if kind == 'c03' and draw(st.sampled_from(range(5))) == 0:
        # keyword arguments starred out of a mapping owned by the target, followed by further keyword sources
        r = {'target': ['dict', [['opts', ['dict', [['a', ['i', 1]], ['b', ['i', 2]]]]], ['n', ['i', draw(st.integers(0, 9))]]]],
             'spec': ['invoke', 'collect', [['*', None, ['path', 'opts']],
                                            draw(st.sampled_from([['S', [], [['p', ['path', 'n']]]], ['C', [], [['q', ['i', 7]]]],
                                                                  ['*', None, ['val', ['dict', [['z', ['i', 0]]]]]]]))]]}
    elif kind == 'c03':
        r = c03.gen(draw)
    elif kind == 'c01':
        r = c01.gen(draw)
    elif kind == 'c09':
        r = c09.gen(draw)
        r = {'pattern': r['pattern'], 'target': r['target']}
    elif kind == 'c10':
        r = c10.gen_bool(draw)
    elif kind == 'c14':
        r = c14.gen_read(draw)
    elif kind == 'c16':
        r = c16.gen(draw)
        r = {'tree': r['tree'], 'items': [0 if isinstance(v, list) and v[0] == 'id' else v for v in r['items']]}
    elif kind == 'c17':
        r = c17.gen(draw)
        r['source']['endless'] = False
        r['terminal'] = 'all'
    else:
        r = c07.gen(draw)
    return {'kind': kind, 'recipe': r}


STEP_KINDS = ['call', 'call', 'same', 'same', 'same', 'flood', 'toggle', 'register', 'greg', 'gcall', 'gcall', 'gsame', 'specglom']


def gen_steps(draw, n, count, opreg=False):
    """opreg: register_op steps too (sub 'history'; the other subs keep the step kinds they were tuned with)"""
    steps = []
    for _ in range(count):
        k = draw(st.sampled_from(STEP_KINDS + ['opreg'] if opreg else STEP_KINDS))
        if k in ('call', 'same', 'gcall', 'gsame', 'specglom'):
            steps.append([k, draw(st.integers(0, n - 1))])
        elif k == 'opreg':
            steps.append(gen_opreg(draw))
        elif k == 'flood':
            steps.append(['flood', draw(st.sampled_from([3, 50, 50, 10050]))])
        else:
            steps.append([k])
    return steps


def gen_opreg(draw, op=None):
    """a register_op step, on the history's Glommer: [_, where, operation, auto_func name, exact]"""
    return ['opreg', 'glommer', op or draw(st.sampled_from(EXT_OPS)), draw(st.sampled_from(['any', 'any', 'iterable', 'any', 'iterable', 'none', 'any'])),
            draw(st.sampled_from(range(8))) == 7]


def weave(draw, core, extra):
    """the constructed steps in their order, up to len(extra) other steps in between"""
    out = []
    for c_ in core:
        out.append(c_)
        if extra and draw(st.booleans()):
            out.append(extra.pop())
    return out


def gen(draw):
    pool = [gen_entry(draw) for _ in range(draw(st.integers(2, 4)))]
    n = len(pool)
    steps = gen_steps(draw, n, draw(st.integers(3, 12)), opreg=True)
    # constructed histories (not left to chance): the same call before and after the event that could change it
    shape = draw(st.sampled_from(['free', 'free', 'probe-sandwich', 'toggle-sandwich', 'repeat-inputs', 'greg-sandwich', 'flood-sandwich', 'toggle-sandwich', 'repeat-inputs', 'probe-sandwich', 'free']))
    if shape == 'free' and draw(st.sampled_from(range(3))) == 2:
        shape = 'opreg-sandwich'        # (taken from the share of the free histories: the other constructed shapes keep theirs)
    if shape != 'free':
        if shape == 'repeat-inputs':
            # the same call again with the very same input objects: a caller-supplied path= list handed in twice, a Match
            # pattern whose absent Optional keys get their defaults
            if draw(st.booleans()):
                pool[0] = gen_pathkw(draw)
                via = draw(st.sampled_from(['same', 'same', 'gsame']))
            else:
                pool[0] = gen_optdefaults(draw)
                via = draw(st.sampled_from(['call', 'same', 'gcall', 'specglom']))
            core = [[via, 0]] * draw(st.sampled_from([2, 2, 3]))
            core = [list(c_) for c_ in core]
        elif shape == 'probe-sandwich':
            # a custom spec asks the registry with raise_exc=False; the call that needs that handler comes after it
            # (and, in half of the cases, before it too), through the same registry
            pair = draw(st.sampled_from(REG_UNHANDLED)) if draw(st.sampled_from(range(3))) else \
                [draw(st.sampled_from(REG_OPS)), draw(st.sampled_from(REG_TAGS))]
            pool[0] = gen_registry(draw, pair, probe=False)
            pool[1] = gen_registry(draw, pair, probe=True)
            via = draw(st.sampled_from([['call', 'same', 'specglom'], ['call', 'same', 'specglom'], ['gcall', 'gsame']]))
            core = [[draw(st.sampled_from(via)), 1], [draw(st.sampled_from(via)), 0]]
            if draw(st.booleans()):
                core.insert(0, [draw(st.sampled_from(via)), 0])
        elif shape == 'opreg-sandwich':
            # a custom spec asks for the handler of an extension operation with raise_exc=False BEFORE the operation exists, then
            # register_op(name, auto_func) on that registry, then the probe / the strict lookup again; control: an instance of
            # another class, looked up for the first time after the registration
            op = draw(st.sampled_from(EXT_OPS))
            tag = draw(st.sampled_from(REG_TAGS))
            pool[0] = {'kind': 'registry', 'recipe': {'op': op, 'type': tag, 'form': 'probe'}}
            pool[1] = {'kind': 'registry', 'recipe': {'op': op, 'type': tag, 'form': 'strict'}}
            via = ['gcall', 'gsame']
            core = [[draw(st.sampled_from(via)), 0], gen_opreg(draw, op)]
            if draw(st.sampled_from(range(3))) == 0:
                core.insert(0, [draw(st.sampled_from(via)), 1])       # (a lookup that raises leaves nothing behind)
            after = draw(st.sampled_from([[1, 0], [0], [1], [0, 1]]))
            if len(pool) > 2 and draw(st.booleans()):
                other = draw(st.sampled_from([t_ for t_ in REG_TAGS if t_ != tag]))
                pool[2] = {'kind': 'registry', 'recipe': {'op': op, 'type': other, 'form': draw(st.sampled_from(['probe', 'strict']))}}
                after = after + [2]
            core += [[draw(st.sampled_from(via)), i_] for i_ in after]
            if draw(st.sampled_from(range(4))) == 0:
                # the operation registered once more (another auto_func), the lookups once more
                core += [gen_opreg(draw, op), [draw(st.sampled_from(via)), draw(st.sampled_from([0, 1]))]]
        elif shape == 'greg-sandwich':
            inner = ['slotsc', [['b', ['i', draw(st.integers(0, 9))]]]]
            pool[0] = {'kind': 'slotpath', 'recipe': {'target': ['slotsc', [['a', inner], ['c', ['s', 'x']]]],
                                                      'path': draw(st.sampled_from(['a.b', 'a', 'c', 'a.zz']))}}
            core = [[draw(st.sampled_from(['gcall', 'gsame'])), 0], ['greg'], [draw(st.sampled_from(['gcall', 'gsame'])), 0]]
        elif shape == 'toggle-sandwich':
            pool[0] = {'kind': 'c14', 'recipe': c14.gen_read(draw)}
            core = [['toggle'], [draw(st.sampled_from(['call', 'same', 'gcall'])), 0], ['toggle'],
                    [draw(st.sampled_from(['call', 'same', 'gcall'])), 0]]
            if draw(st.booleans()):
                core = core[1:] + [['toggle'], core[1]]
        else:
            core = [[draw(st.sampled_from(['call', 'same', 'gcall'])), 0], ['flood', 10050], [draw(st.sampled_from(['call', 'same', 'gcall'])), 0]]
        steps = weave(draw, core, steps[:draw(st.integers(0, 3))])
    return {'pool': pool, 'steps': steps, 'shape': shape}


def gen_fold(draw):
    """sub 'fold': histories around a default-op fold over [x, e.., y, ..] (x: start value + x is x; e: x + e is x), evaluated
    two or three times - in half of the histories with the very same target objects -, other entries and events in between"""
    pool = [gen_vecfold(draw, 'x-e-y' if draw(st.sampled_from(range(4))) else None)]
    for _ in range(draw(st.sampled_from([0, 1, 1, 2]))):
        pool.append(gen_vecfold(draw) if draw(st.sampled_from(range(3))) == 0 else gen_entry(draw))
    if draw(st.booleans()):
        vias = [draw(st.sampled_from(['same', 'same', 'gsame', 'specglom']))] * 3       # one spec object, the same target objects
    else:
        vias = [draw(st.sampled_from(['call', 'same', 'gcall', 'gsame', 'specglom'])) for _ in range(3)]
    core = [[v, 0] for v in vias[:draw(st.sampled_from([2, 2, 3]))]]
    extra = gen_steps(draw, len(pool), draw(st.sampled_from([0, 1, 2, 3])))
    return {'pool': pool, 'steps': weave(draw, core, extra), 'shape': 'fold-repeat'}


def gen_xreg(draw, where=None):
    """a registration step: on the module-level registry only the history's own attribute class, for 'get'"""
    if where is None:
        where = draw(st.sampled_from(['module', 'glommer', 'glommer']))
    tag = 'midobj' if where == 'module' else draw(st.sampled_from(sorted(XREG_OPS)))
    op = 'get' if where == 'module' else draw(st.sampled_from(XREG_OPS[tag]))
    return ['xreg', where, tag, draw(st.sampled_from(['base', 'base', 'self'])), op, draw(st.sampled_from(['h1', 'h2', 'h3'])),
            draw(st.sampled_from([True, True, False]))]


def gen_exact(draw):
    """sub 'exactreg': an instance of an unregistered subclass of X is looked up for an operation, THEN X - a default type of
    the registry (dict / list / tuple) or a class registered earlier in the history without exact - is registered for that
    operation with another handler and exact=True, then the same call is made again.  Controls by construction: the exact
    registration of a type new to the tree, of the target's own class, a non-exact re-registration."""
    where = draw(st.sampled_from(['module', 'glommer', 'glommer']))
    if where == 'module':
        tag, op = 'midobj', 'get'
    else:
        tag = draw(st.sampled_from(XREG_DEFAULT_TAGS + MID_TAGS))
        op = draw(st.sampled_from(XREG_OPS[tag]))
    pool = [{'kind': 'registry', 'recipe': {'op': op, 'type': tag, 'form': draw(st.sampled_from(REG_FORMS[op]))}},
            {'kind': 'registry', 'recipe': {'op': op, 'type': tag, 'form': 'probe'}}]
    for _ in range(draw(st.sampled_from([0, 1, 1, 2]))):
        pool.append(gen_entry(draw))
    vias = ['gcall', 'gsame'] if where == 'glommer' else ['call', 'same', 'specglom']
    core = []
    if tag in MID_TAGS and draw(st.sampled_from(range(5))):
        core.append(['xreg', where, tag, 'base', op, 'h1', False])        # X enters the type tree
    # the lookup that warms the registry's memo for the subclass: the call itself, or a custom spec asking for the handler
    core.append([draw(st.sampled_from(vias)), draw(st.sampled_from([0, 0, 1]))])
    handlers = ['h2', 'h3'] if draw(st.booleans()) else ['h3', 'h2']
    for rnd in range(draw(st.sampled_from([1, 1, 2]))):
        core.append(['xreg', where, tag, draw(st.sampled_from(['base', 'base', 'base', 'base', 'self'])), op, handlers[rnd],
                     draw(st.sampled_from([True, True, True, True, False]))])
        core.append([draw(st.sampled_from(vias)), 0])
    extra = gen_steps(draw, len(pool), draw(st.sampled_from([0, 0, 1, 2])))
    if draw(st.sampled_from(range(3))) == 0:
        extra.append(gen_xreg(draw))
    return {'pool': pool, 'steps': weave(draw, core, extra), 'shape': 'exact-sandwich'}


# ---------------------------------------------------------------------------

_SERVER = []
_SERVER_B = []
_FLOOD = [0]
OTHER_HASHSEED = '4711'     # the checking process and the first reference run under PYTHONHASHSEED=0


def server(slot=_SERVER, hashseed='0'):
    # one reference server PER PROCESS: a shard forked after the parent has already talked to its server (replay files
    # run in the parent) must not share that server's pipes with its siblings
    if not slot or slot[0][0] != os.getpid():
        s = cold.ColdServer(boot.REPO, hashseed=hashseed)
        slot[:] = [(os.getpid(), s)]
        atexit.register(s.close)
    return slot[0][1]


def server_other_hashseed():
    """a second pristine interpreter whose str hashes (hence set orders) differ from this process's"""
    return server(_SERVER_B, OTHER_HASHSEED)


def reachable_ids(v):
    ids = set()
    stack = [v]
    while stack:
        x = stack.pop()
        if id(x) in ids:
            continue
        ids.add(id(x))
        for _, c in tg.children(x):
            stack.append(c)
    return ids


def check(recipe, ctx):
    pool = recipe['pool']
    ctx.label('shape-' + recipe.get('shape', 'free'))
    srv = server()
    star0 = glom.core.PATH_STAR
    star = True
    glom.core.PATH_STAR = True
    nreg = 0
    gregs = 0
    g = Glommer()
    same = {}
    same_kw = {}
    ncalls = {'n': 0}
    last_result = {}
    env = {}
    probed = {}             # (registry, op, type tag) -> what the raise_exc=False probe returned, since the last registration
    regs = {'module': [], 'glommer': []}    # the registrations that can matter to a pool entry, in their order
    in_tree = set()         # (registry, type tag): the tag's base class was registered without exact
    looked = set()          # (registry, type tag, op) looked up since the last registration on that registry
    pending = {}            # (registry, type tag, op): X registered exact=True after a lookup of its unregistered subclass
    unserved = set()        # (registry, op, type tag): 'no handler' answered to a raise_exc=False probe, then register_op(op) on that
                            # registry, and no register() on it since
    ext_ops = set()         # (registry, op): the extension operations registered so far
    same_target = {}
    labelled = set()

    def once(*names):
        # (the classes of the 'fold' / 'exactreg' histories are counted per case, not per step)
        for n_ in names:
            if n_ not in labelled:
                labelled.add(n_)
                ctx.label(n_)
    history_markers = 0
    compared = 0
    interesting = False
    try:
        for step in recipe['steps']:
            k = step[0]
            if k == 'flood':
                _FLOOD[0] += 1
                for j in range(step[1]):
                    glom.glom({}, 'flood%d_%d' % (_FLOOD[0], j), default=None)
                history_markers += 1
                ctx.label('flood-%s' % ('big' if step[1] > 10000 else 'small'))
                continue
            if k == 'toggle':
                star = not star
                glom.core.PATH_STAR = star
                history_markers += 1
                ctx.label('toggle')
                continue
            if k == 'register':
                cls = type('Throwaway', (object,), {'__slots__': ()})
                glom.register(cls, get=lambda o, key: None)
                probed = dict((k_, v_) for k_, v_ in probed.items() if k_[0] != 'module')
                looked = set(k_ for k_ in looked if k_[0] != 'module')
                pending = dict((k_, v_) for k_, v_ in pending.items() if k_[0] != 'module')
                continue
            if k == 'greg':
                apply_reg(g, ['slots'], env)
                regs['glommer'].append(['slots'])
                gregs += 1
                ctx.label('glommer-register')
                probed = dict((k_, v_) for k_, v_ in probed.items() if k_[0] != 'glommer')
                looked = set(k_ for k_ in looked if k_[0] != 'glommer')
                pending = dict((k_, v_) for k_, v_ in pending.items() if k_[0] != 'glommer')
                unserved = set(k_ for k_ in unserved if k_[0] != 'glommer')
                continue
            if k == 'opreg':
                where, op, auto, exact = step[1:]
                apply_reg(g, ['op', op, auto, exact], env)
                regs[where].append(['op', op, auto, exact])
                once('opreg')
                if (where, op) in ext_ops:
                    once('opreg-again')
                ext_ops.add((where, op))
                for k_, v_ in probed.items():
                    if k_[0] == where and k_[1] == op and v_ == ['no-handler']:
                        unserved.add(k_)
                        history_markers += 1
                        once('opreg-after-probe')
                probed = dict((k_, v_) for k_, v_ in probed.items() if k_[0] != where)
                looked = set(k_ for k_ in looked if k_[0] != where)
                pending = dict((k_, v_) for k_, v_ in pending.items() if k_[0] != where)
                continue
            if k == 'xreg':
                where, tag, which, op, hname, exact = step[1:]
                apply_reg(g if where == 'glommer' else glom, [tag, which, op, hname, exact], env)
                regs[where].append([tag, which, op, hname, exact])
                once('xreg', 'xreg-exact' if exact else 'xreg-fuzzy')
                # (generator-side knowledge, for the labels only) X has a place in the type tree of the operation: a default
                # type of every registry, or a class of this history registered before without exact
                known = which == 'base' and (tag in XREG_DEFAULT_TAGS or (where, tag) in in_tree)
                if which == 'base' and not exact:
                    in_tree.add((where, tag))
                probed = dict((k_, v_) for k_, v_ in probed.items() if k_[0] != where)
                pending = dict((k_, v_) for k_, v_ in pending.items() if k_[0] != where)
                unserved = set(k_ for k_ in unserved if k_[0] != where)
                if exact and known and (where, tag, op) in looked:
                    pending[(where, tag, op)] = tag in XREG_DEFAULT_TAGS
                    history_markers += 1
                    once('exact-reg-after-lookup')
                looked = set(k_ for k_ in looked if k_[0] != where)
                continue
            i = step[1] % len(pool)
            entry = pool[i]
            target, spec, kw = build_entry(entry['kind'], entry['recipe'], env)
            reuse = k in ('same', 'gsame', 'specglom')
            via_glommer = k in ('gcall', 'gsame')
            via_spec = k == 'specglom'
            if via_spec:
                spec = glom.Spec(spec, scope={'k': 'spec-level-k'})
                ncalls['n'] += 1
                call_scope = {'j': 'call-%d' % ncalls['n']}
            if reuse:
                key = (i, via_glommer, via_spec)
                if key in same:
                    spec = same[key]
                    history_markers += 1
                    if entry['kind'] == 'pathkw':
                        kw = same_kw[key]       # the caller passes the very list again
                        if not via_spec:
                            ctx.label('caller-path-reused')
                else:
                    same[key] = spec
                    same_kw[key] = kw
                if entry['kind'] == 'vecfold':
                    # the caller folds the very same elements again
                    if key in same_target:
                        target = same_target[key]
                        once('fold-same-target-again')
                    else:
                        same_target[key] = target
            t_snap = tg.snapshot(target)
            s_snap = tg.snapshot(spec)
            s_repr = cold.ADDR.sub('', repr(spec))
            scope_map = kw.get('scope')
            scope_items = list(scope_map.items()) if scope_map is not None else None
            path_list = kw.get('path') if not via_spec else None
            path_items = list(path_list) if path_list is not None else None
            if path_list is not None:
                ctx.label('caller-path')
            holder = {}

            def run():
                if via_spec:
                    holder['v'] = spec.glom(target, scope=call_scope)
                elif via_glommer:
                    holder['v'] = g.glom(target, spec, **kw)
                else:
                    holder['v'] = glom.glom(target, spec, **kw)
                return holder['v']
            got = cold.canon_outcome(run)
            where = 'step %r of history %r on pool entry %d (%s): glom(%r, %r)' % (
                step, recipe['steps'], i, entry['kind'], target, spec)
            # ---- frame
            d = tg.snapshot_diff(t_snap, tg.snapshot(target))
            if d:
                raise Mismatch('target-mutated', '%s: %s' % (where, d))
            d = tg.snapshot_diff(s_snap, tg.snapshot(spec))
            if d or cold.ADDR.sub('', repr(spec)) != s_repr:
                raise Mismatch('spec-mutated', '%s: %s' % (where, d or 'repr changed'))
            if scope_map is not None and (list(scope_map.items()) != scope_items):
                raise Mismatch('scope-mutated', '%s: caller scope is now %r' % (where, scope_map))
            if path_list is not None and (kw.get('path') is not path_list or list(path_list) != path_items):
                raise Mismatch('path-mutated', '%s: the path= list of the caller, %r, is now %r' % (where, path_items, path_list))
            # ---- history independence
            req = {'kind': entry['kind'], 'recipe': entry['recipe'], 'star': star, 'nreg': 0,
                   'glommer': via_glommer, 'gregs': 0, 'regs': regs['glommer' if via_glommer else 'module'],
                   'specglom': call_scope if via_spec else None}
            resp = srv.ask(req)
            if 'outcome' not in resp:
                raise HarnessBug('cold reference failed: %r' % (resp,))
            compared += 1
            if history_markers:
                interesting = True
            if resp['outcome'] != got:
                raise Mismatch('history-dependent', '%s: outcome %r, but %r when evaluated first in a pristine process '
                               '(PATH_STAR=%r, registrations %r)' % (where, got, resp['outcome'], star, req['regs']))
            # ---- the outcome (the order of a result dict's keys and which error is raised included) is no function of the
            # interpreter's hash seed either: same pair, pristine process under another PYTHONHASHSEED
            if entry['kind'] == 'optdefaults':
                ctx.label('optional-defaults')
                if sum(1 for _, d_ in entry['recipe']['keys'] if d_[0] == 't') >= 2:
                    ctx.label('optional-defaults-failing')
                resp2 = server_other_hashseed().ask(req)
                if 'outcome' not in resp2:
                    raise HarnessBug('cold reference (other hash seed) failed: %r' % (resp2,))
                if resp2['outcome'] != got:
                    raise Mismatch('hash-seed-dependent', '%s: outcome %r, but %r when evaluated first in a pristine process under '
                                   'PYTHONHASHSEED=%s (this process: 0)' % (where, got, resp2['outcome'], OTHER_HASHSEED))
            # ---- (labels) a registry lookup after a custom spec has asked for the same handler with raise_exc=False
            if entry['kind'] == 'vecfold':
                once('fold-elements')
                if fold_hazard(entry['recipe']):
                    once('fold-borrowed-identity', 'fold-borrowed-identity-' + ('group' if entry['recipe']['form'].startswith('group') else 'plain'))
            if entry['kind'] == 'registry':
                r_ = entry['recipe']
                lkey = ('glommer' if via_glommer else 'module', r_['type'], r_['op'])
                looked.add(lkey)
                if lkey in pending:
                    once('need-after-exact-reg', 'need-after-exact-reg-' + ('default-type' if pending.pop(lkey) else 'registered-type'),
                              'need-after-exact-reg-' + lkey[0])
                pkey = ('glommer' if via_glommer else 'module', r_['op'], r_['type'])
                if r_['op'] in EXT_OPS:
                    # (labels from the reference's answer) an extension operation: looked up before / after it was registered;
                    # after a registration that follows a 'no handler' answer for this very type; served by the operation
                    served = resp['outcome'][0] == 'ok' and 'ext-' in resp['outcome'][1]
                    once('ext-lookup', 'ext-lookup-' + ('registered' if pkey[:2] in ext_ops else 'unregistered'))
                    if served:
                        once('ext-served')
                    if pkey in unserved:
                        once('ext-lookup-after-opreg', 'ext-lookup-after-opreg-' + r_['form'])
                        if served:
                            once('ext-served-after-opreg', 'ext-served-after-opreg-' + r_['form'])
                    elif served and pkey not in probed:
                        once('ext-served-control')       # (not probed since the last registration: nothing memoised to go stale)
                if r_['form'] == 'probe':
                    ctx.label('registry-probe')
                    history_markers += 1
                    probed[pkey] = holder.get('v')
                else:
                    ctx.label('registry-need')
                    if pkey in probed:
                        ctx.label('need-after-probe', 'need-after-probe-' + ('unhandled' if probed[pkey] == ['no-handler'] else 'handled'))
            # ---- a literal in argument position is never handed out itself
            if entry['kind'] == 'scopelit' and 'v' in holder:
                ctx.label('scope-literal')
                v = holder['v']
                mine = getattr(spec.spec if type(spec) is glom.Spec else spec, 'default', None) if entry['recipe']['form'] == 'default' else None
                if mine is not None and v is mine:
                    raise Mismatch('result-aliases-spec', '%s: the result is the container literal held by the spec' % where)
                if entry['recipe']['form'] == 'default' and isinstance(v, (list, dict, set)):
                    # what the caller does with the result is the caller's business: the next evaluation starts afresh
                    (v.append if isinstance(v, list) else v.add if isinstance(v, set) else (lambda x: v.__setitem__(x, x)))('caller-wrote-this')
            # ---- fresh result containers on re-use of one spec object
            if reuse and not via_spec and 'v' in holder and isinstance(holder['v'], (list, dict)) \
                    and isinstance(spec, (dict, list)):
                # a dict / list spec builds a new container on every evaluation
                v = holder['v']
                prev = last_result.get((i, via_glommer))
                if prev is not None and prev is v:
                    raise Mismatch('results-share-state', '%s: two evaluations returned the same container object' % where)
                if v is spec:
                    raise Mismatch('result-aliases-spec', '%s: the result is the spec container itself' % where)
                last_result[(i, via_glommer)] = v
    finally:
        glom.core.PATH_STAR = star0
    ctx.label('compared-%d' % min(compared, 5))
    ctx.nontrivial(interesting and len(recipe['steps']) >= 3)
    ctx.outcome([[e['kind'] for e in pool], recipe['steps']])


SUBS = [
    Sub('fold', check, gen=gen_fold, quick=320, thorough=800,
        floors={'fold-borrowed-identity': 0.2, 'fold-borrowed-identity-plain': 0.13, 'fold-borrowed-identity-group': 0.06, 'fold-same-target-again': 0.22},
        doc='default-op folds (Sum / Fold / Flatten, plain and as Group aggregators) over [x, e.., y, ..] of additive user classes, repeated'),
    Sub('exactreg', check, gen=gen_exact, quick=320, thorough=800,
        floors={'need-after-exact-reg': 0.28, 'need-after-exact-reg-default-type': 0.09, 'need-after-exact-reg-registered-type': 0.18,
                'need-after-exact-reg-module': 0.09, 'need-after-exact-reg-glommer': 0.18, 'xreg-fuzzy': 0.3},
        doc='lookup of an unregistered subclass, then register(X, op=other handler, exact=True) for an X already in the type tree, then the call again'),
    Sub('history', check, gen=gen, quick=1600, thorough=4000,
        # (toggle / flood-small / glommer-register / shape-greg-sandwich: lowered when the opreg steps and the opreg-sandwich shape took
        # their share of the step mix - observed at seeds 1-3 since: 0.33-0.39 / 0.074-0.12 / 0.115-0.2 / 0.041-0.08)
        floors={'toggle': 0.19, 'flood-small': 0.04, 'flood-big': 0.04, 'glommer-register': 0.065, 'shape-greg-sandwich': 0.024, 'shape-toggle-sandwich': 0.04, 'scope-literal': 0.03,
                'caller-path': 0.08, 'caller-path-reused': 0.008, 'optional-defaults': 0.06, 'optional-defaults-failing': 0.02,
                'shape-probe-sandwich': 0.04, 'shape-repeat-inputs': 0.03, 'registry-probe': 0.08, 'need-after-probe-unhandled': 0.03, 'need-after-probe-handled': 0.01,
                # register_op of an extension operation after a raise_exc=False probe of it answered 'no handler' for the type, then the
                # lookup again (served: the reference, which registers first, gets a handler from the operation's auto_func)
                'shape-opreg-sandwich': 0.028, 'opreg': 0.06, 'opreg-after-probe': 0.027, 'ext-lookup-after-opreg': 0.027,
                'ext-served-after-opreg': 0.019, 'ext-served-after-opreg-probe': 0.017, 'ext-served-after-opreg-strict': 0.015,
                'ext-served-control': 0.004}),
]
