"""C06 — Non-mutating specs are pure: inputs untouched, outcome independent of history.

Each case is a history over a pool of (target, spec) pairs drawn from the non-mutating grammars of
C01 / C03 / C07 / C09 / C10 / C14 / C16 / C17: calls with a freshly built spec, calls re-using one
spec object, cache floods with distinct path strings (one step floods 10 050 at once to overflow
the path memo), PATH_STAR toggles, registrations of throw-away classes on the module-level registry
and of a meaningful handler on a Glommer, interleaved in a generated order.  'registry' pool entries
are a custom spec that asks scope[TargetRegistry].get_handler(op, target, raise_exc=False) for one of
iterate / get / keys / assign / delete on a type with or without such a handler, and calls that need
that handler ([T], Coalesce(Sum(), default=), Iter, Group, a path, '*', '**', the custom spec asking
with raise_exc=True); the probe-sandwich shape puts the probe before the call that needs the handler.
'pathkw' entries pass a caller-owned path= list to dict specs of tuple chains / T call steps / Coalesces,
'optdefaults' entries are Match dict patterns with 3-5 absent Optional keys (plain and failing defaults);
the repeat-inputs shape evaluates them again with the very same input objects.

Oracles
  frame       before/after every call the structure-and-identity snapshot of the target, of the spec
              and of the caller's scope mapping is identical; so is the caller's path= list
  history     every call's canonical outcome (value or error class + message) equals the outcome of the
              same pair, under the same PATH_STAR value and the same registrations, evaluated FIRST in
              a pristine process (vf/cold.py: a fresh interpreter that has imported glom and never
              called it forks one child per reference evaluation)
  hash seed   ('optdefaults' entries) the outcome - key order of the result dict and which error included -
              also equals that of a pristine process running under another PYTHONHASHSEED
  fresh       two evaluations of one spec object return containers that are not the same object
"""
import atexit
import os
import warnings

from hypothesis import strategies as st

import glom
import glom.core
from glom import Match, Glommer, T, Coalesce, Sum, Iter, Optional
from glom.core import TargetRegistry, UnregisteredTarget
from glom.grouping import Group

from ..runner import Sub, Mismatch, HarnessBug
from .. import targets as tg
from .. import boot
from .. import cold
from . import c01, c03, c07, c09, c10, c14, c16, c17

warnings.filterwarnings('ignore', message=".*have changed behavior in glom version.*")

PROPERTY = 'C06'
RULE = ('histories of 3-12 steps over a pool of 2-4 (target, spec) pairs; steps: call / call-same-spec-object / flood n / '
        'flood 10050 / toggle PATH_STAR / register / Glommer register + call; pool entries include a custom spec probing '
        'get_handler(op, target, raise_exc=False) and calls needing that handler. Non-trivial = >= 3 steps with, before a compared '
        'call, a repeat of the same spec object, a cache flood, a toggle or a registry probe.')
ASSUMPTIONS = [
    'the pristine reference is a forked child of a fresh interpreter that imported glom but never called it (vf/cold.py)',
    'outcomes are compared canonically: structure with types and sharing pattern, error class and message with addresses stripped',
    'module-level registrations are of fresh throw-away classes (they accumulate in the worker process and must not change any outcome)',
]


def custom_get(obj, key):
    return ['custom-get', getattr(obj, key)]


# ---------------------------------------------------------------------------
# pool entries: deterministic builders shared with the cold server

class HandlerProbe(object):
    """custom specifier type in the style of docs/custom_spec_types.rst: asks the registry of the running call for the
    handler of one operation on its target.  strict=False is the documented "or False if raise_exc=False" form of
    TargetRegistry.get_handler, strict=True the default one ("raising UnregisteredTarget if no handler can be found").
    It reads, and changes nothing: a non-mutating spec."""

    def __init__(self, op, strict):
        self.op = op
        self.strict = strict

    def glomit(self, target, scope):
        registry = scope[TargetRegistry]
        if self.strict:
            try:
                handler = registry.get_handler(self.op, target)
            except UnregisteredTarget:
                return ['UnregisteredTarget']       # (not its message: that lists every type registered so far)
        else:
            handler = registry.get_handler(self.op, target, raise_exc=False)
            if handler is False:
                return ['no-handler']
        out = ['handler', getattr(handler, '__name__', type(handler).__name__)]
        if self.op in ('iterate', 'keys'):
            out.append(list(handler(target)))
        return out

    def __repr__(self):
        return 'HandlerProbe(%r, strict=%r)' % (self.op, self.strict)


# targets of the 'registry' entries are instances of classes made for the one case (one class per tag and history; the
# cold reference makes its own): what an earlier CASE left in the worker's registry memo cannot reach them, so a
# failing history fails again when it is replayed alone
REG_TYPES = {
    'opaque': (tg.Slots, None),                 # attributes only: not iterable, no __dict__
    'intsub': (int, 5),
    'strsub': (str, 'ab'),
    'listsub': (list, [1, 2]),
    'tuplesub': (tuple, (1, 2)),
    'dictsub': (dict, {'a': 1, 'b': 2}),
}
REG_OPS = ['iterate', 'get', 'keys', 'assign', 'delete']
REG_GET_PATH = {'opaque': 'a', 'intsub': 'real', 'strsub': 'zz', 'listsub': '1', 'tuplesub': '0', 'dictsub': 'b'}
# forms of a call that NEEDS the handler of the operation ('strict': the custom spec asking with raise_exc=True;
# Assign / Delete themselves are outside this property's domain)
REG_FORMS = {
    'iterate': ['list', 'sumdef', 'iterall', 'group', 'strict'],
    'get': ['path', 'strict'],
    'keys': ['star', 'starstar', 'strict'],
    'assign': ['strict'],
    'delete': ['strict'],
}
# generator-side knowledge (the labels are measured from what the probe returns): pairs without a handler on a default
# registry - non-iterables, objects that are neither mapping nor __dict__-carrying, immutable builtins
REG_UNHANDLED = [['iterate', 'opaque'], ['iterate', 'intsub'], ['keys', 'opaque'], ['keys', 'intsub'], ['keys', 'listsub'],
                 ['keys', 'tuplesub'], ['keys', 'strsub'], ['assign', 'intsub'], ['assign', 'tuplesub'], ['assign', 'strsub'],
                 ['delete', 'intsub'], ['delete', 'tuplesub'], ['delete', 'strsub']]


def reg_target(tag, env):
    cls = env.get(tag)
    if cls is None:
        base, _ = REG_TYPES[tag]
        name = tag.capitalize()
        if base is tg.Slots:
            def rep(self):
                return 'Opaque(a=%r, b=%r)' % (self.a, self.b)
        else:
            def rep(self, name=name, base=base):
                return '%s(%s)' % (name, base.__repr__(self))
        cls = env[tag] = type(name, (base,), {'__slots__': (), '__repr__': rep})
    value = REG_TYPES[tag][1]
    if value is None:
        obj = cls()
        obj.a = 1
        obj.b = [1, 2]
        return obj
    return cls(value)


def reg_spec(op, form, tag):
    if form == 'probe':
        return HandlerProbe(op, False)
    if form == 'strict':
        return HandlerProbe(op, True)
    if form not in REG_FORMS[op]:
        raise ValueError((op, form))
    if form == 'list':
        return [T]
    if form == 'sumdef':
        return Coalesce(Sum(), default='n/a')
    if form == 'iterall':
        return Iter().all()
    if form == 'group':
        return Group([T])
    if form == 'path':
        return REG_GET_PATH[tag]
    return {'star': '*', 'starstar': '**'}[form]


def c16_item(v):
    """C16's recipe items: plain numbers, ['F', n, d] Fractions, ['D', text] Decimals (its ['id', path] placeholder - the
    address of a spec object, another number in every process - is replaced by the generator below)"""
    if not isinstance(v, list):
        return v
    if v[0] == 'F':
        from fractions import Fraction
        return Fraction(v[1], v[2])
    if v[0] == 'D':
        from decimal import Decimal
        return Decimal(v[1])
    raise ValueError('C16 item %r' % (v,))


# ---- a caller-supplied path= list (the call's starting path) over dict specs whose values are tuple chains, T call steps
# and Coalesces: the list is an input of the call like target and scope mapping
PATH_TARGET = ['dict', [['a', ['dict', [['b', ['s', 'hello']], ['n', ['i', 3]]]]], ['c', ['list', [['i', 1], ['i', 2], ['i', 1]]]], ['s', ['s', 'str']]]]
PATH_CHAINS = [['a', 'b'], ['a', 'n'], ['c'], ['a'], ['s'], ['c', '[T]'], ['a', 'b', '[T]']]
PATH_TCALLS = ['upper', 'count', 'get', 'chain-upper']


def path_value(v):
    if v[0] == 'chain':
        return tuple([T] if s_ == '[T]' else s_ for s_ in v[1])
    if v[0] == 'tcall':
        return {'upper': lambda: T['a']['b'].upper(), 'count': lambda: T['c'].count(1), 'get': lambda: T['a'].get('b', 'dflt'),
                'chain-upper': lambda: ('a', T['b'].upper())}[v[1]]()
    if v[0] == 'coalesce':
        return Coalesce('zz', T['nope']) if v[1] == 'fail' else Coalesce('zz', 'c')
    if v[0] == 'plain':
        return v[1]
    raise ValueError(v)


# ---- absent Optional keys of a Match dict pattern with defaults (plain values, T defaults that fail on the target)
OPT_NAMES = ['alpha', 'beta', 'gamma', 'delta', 'epsilon', 'zeta', 'eta', 'theta', 'iota', 'kappa', 'k1', 'k2', 'x', 'y']


def opt_pattern(keys):
    pat = {}
    for name, d in keys:
        pat[Optional(name, default=(T[d[1]] if d[0] == 't' else d[1]))] = object
    return Match(pat)


def build_entry(kind, r, env=None):
    """(target, spec, kwargs) - a pure function of the recipe (env: the classes made for the running history)"""
    if kind == 'pathkw':
        spec = dict((name, path_value(v)) for name, v in r['values'])
        return tg.build(PATH_TARGET).obj, spec, {'path': list(r['start'])}
    if kind == 'optdefaults':
        return dict((k_, 7) for k_ in r['present']), opt_pattern(r['keys']), {}
    if kind == 'registry':
        return reg_target(r['type'], {} if env is None else env), reg_spec(r['op'], r['form'], r['type']), {}
    if kind == 'c03':
        return tg.build(r['target']).obj, c03.build(r['spec'], []), {}
    if kind == 'c01':
        steps = [(op, seg) for op, seg in r['steps']]
        sp = 'str' if 'str' in c01.spellings(steps) else 'path'
        return tg.build(r['target']).obj, c01.make_spec(steps, sp), {}
    if kind == 'c09':
        return tg.build(r['target']).obj, Match(c09.build_pat(r['pattern'])), {}
    if kind == 'c10':
        return tg.build(r['target']).obj, Match(c10.build_tree(r['tree'], [], r['build'])), {}
    if kind == 'c14':
        return c14.build_graph(r['graph']).obj, '.'.join(r['segs']), {}
    if kind == 'c16':
        return [c16_item(v) for v in r['items']] or [4], Group(c16.build(r['tree'])), {}
    if kind == 'c17':
        return list(r['source']['items']), c17.build_iter(r).all(), {}
    if kind == 'c07':
        kw = {'scope': dict(r['caller'])} if r['caller'] else {}
        return [1, 2], c07.build(r['tree']), kw
    if kind == 'slotpath':
        return tg.build(r['target']).obj, r['path'], {}
    if kind == 'raiser':
        # a callable raising an exception of a class NAMED Timeout; which class that is (its base) differs between entries
        import builtins
        cls = type('Timeout', (getattr(builtins, r['base']),), {})

        def site(t, cls=cls):
            raise cls('timed out')
        return {'a': 1}, {'k': site}, {}
    if kind == 'scopelit':
        # a container LITERAL in argument position is a template: every evaluation builds a new container from it
        lit = tg.build(r['lit']).obj
        if r['form'] == 'svar':
            return 'tgt', (glom.S(v=lit), {'prev': Coalesce(glom.S.v['last'], default='<none>'), 'cur': glom.A.v['last']}), {}
        if r['form'] == 'default':
            return {}, Coalesce('items', default=lit), {}
        return {}, ('nope', 'nope'), {'default': lit}
    raise ValueError(kind)


def gen_registry(draw, pair=None, probe=None):
    op, tag = pair or (draw(st.sampled_from(REG_UNHANDLED)) if draw(st.booleans()) else
                       [draw(st.sampled_from(REG_OPS)), draw(st.sampled_from(sorted(REG_TYPES)))])
    if probe is None:
        probe = draw(st.booleans())
    form = 'probe' if probe else draw(st.sampled_from(REG_FORMS[op]))
    return {'kind': 'registry', 'recipe': {'op': op, 'type': tag, 'form': form}}


def gen_pathkw(draw):
    def value(kinds):
        k = draw(st.sampled_from(kinds))
        if k == 'chain':
            return ['chain', draw(st.sampled_from(PATH_CHAINS))]
        if k == 'tcall':
            return ['tcall', draw(st.sampled_from(PATH_TCALLS))]
        if k == 'plain':
            return ['plain', draw(st.sampled_from(['a.b', 'c', 's']))]
        return ['coalesce', k[9:]]
    # by construction: a value that takes steps (tuple chain / T call) first, then whatever, a failing Coalesce last in half
    # of the cases (its error reports the path it was reached by)
    values = [value(['chain', 'tcall'])]
    for _ in range(draw(st.sampled_from([0, 1, 1, 2]))):
        values.append(value(['chain', 'tcall', 'plain', 'coalesce-ok', 'coalesce-fail']))
    if draw(st.booleans()):
        values.append(['coalesce', 'fail'])
    names = ['x', 'y', 'z', 'w', 'v']
    return {'kind': 'pathkw', 'recipe': {'start': draw(st.sampled_from([[], ['start'], ['p', 0]])),
                                         'values': [[names[i], v] for i, v in enumerate(values)]}}


def gen_optdefaults(draw):
    n = draw(st.sampled_from([3, 4, 5]))
    names = draw(st.permutations(OPT_NAMES))[:n]
    failing = draw(st.sampled_from(['none', 'none', 'some', 'all']))
    keys = []
    for i, name in enumerate(names):
        fail = failing == 'all' or (failing == 'some' and (i < 2 or draw(st.booleans())))
        keys.append([name, ['t', 'missing-' + name] if fail else ['i', i + 1]])
    if failing == 'some':
        keys = draw(st.permutations(keys))
    # at least three keys stay absent
    present = [name for name in names[3:] if draw(st.booleans())]
    return {'kind': 'optdefaults', 'recipe': {'keys': [list(k_) for k_ in keys], 'present': present}}


def gen_entry(draw):
    kind = draw(st.sampled_from(['c03', 'c03', 'c01', 'c09', 'c10', 'c14', 'c14', 'c16', 'c17', 'c07', 'c07', 'slotpath', 'slotpath', 'scopelit',
                                 'scopelit', 'registry', 'pathkw', 'optdefaults']))
    if kind == 'registry':
        return gen_registry(draw)
    if kind == 'pathkw':
        return gen_pathkw(draw)
    if kind == 'optdefaults':
        return gen_optdefaults(draw)
    if kind == 'scopelit' and draw(st.booleans()):
        return {'kind': 'raiser', 'recipe': {'base': draw(st.sampled_from(['ValueError', 'KeyError', 'LookupError', 'RuntimeError']))}}
    if kind == 'scopelit':
        form = draw(st.sampled_from(['svar', 'svar', 'default']))
        lits = [['dict', []], ['dict', [['seed', ['i', 0]]]]] if form == 'svar' else \
            [['dict', []], ['list', []], ['list', [['i', 1]]], ['dict', [['seed', ['i', 0]]]], ['set', []]]
        return {'kind': kind, 'recipe': {'form': form, 'lit': draw(st.sampled_from(lits))}}
    if kind == 'slotpath':
        # attribute objects WITHOUT an instance __dict__ (a subclass of a slot-only class): a Glommer registration for
        # the base class decides their 'get' handler
        inner = ['slotsc', [['b', ['i', draw(st.integers(0, 9))]]]]
        return {'kind': kind, 'recipe': {'target': [draw(st.sampled_from(['slotsc', 'slots'])), [['a', inner], ['c', ['s', 'x']]]],
                                         'path': draw(st.sampled_from(['a.b', 'a', 'c', 'a.zz']))}}
    if kind == 'c03' and draw(st.sampled_from(range(5))) == 0:
        # keyword arguments starred out of a mapping owned by the target, followed by further keyword sources
        r = {'target': ['dict', [['opts', ['dict', [['a', ['i', 1]], ['b', ['i', 2]]]]], ['n', ['i', draw(st.integers(0, 9))]]]],
             'spec': ['invoke', 'collect', [['*', None, ['path', 'opts']],
                                            draw(st.sampled_from([['S', [], [['p', ['path', 'n']]]], ['C', [], [['q', ['i', 7]]]],
                                                                  ['*', None, ['val', ['dict', [['z', ['i', 0]]]]]]]))]]}
    elif kind == 'c03':
        r = c03.gen(draw)
    elif kind == 'c01':
        r = c01.gen(draw)
    elif kind == 'c09':
        r = c09.gen(draw)
        r = {'pattern': r['pattern'], 'target': r['target']}
    elif kind == 'c10':
        r = c10.gen_bool(draw)
    elif kind == 'c14':
        r = c14.gen_read(draw)
    elif kind == 'c16':
        r = c16.gen(draw)
        r = {'tree': r['tree'], 'items': [0 if isinstance(v, list) and v[0] == 'id' else v for v in r['items']]}
    elif kind == 'c17':
        r = c17.gen(draw)
        r['source']['endless'] = False
        r['terminal'] = 'all'
    else:
        r = c07.gen(draw)
    return {'kind': kind, 'recipe': r}


def gen(draw):
    pool = [gen_entry(draw) for _ in range(draw(st.integers(2, 4)))]
    n = len(pool)
    steps = []
    for _ in range(draw(st.integers(3, 12))):
        k = draw(st.sampled_from(['call', 'call', 'same', 'same', 'same', 'flood', 'toggle', 'register', 'greg', 'gcall', 'gcall', 'gsame', 'specglom']))
        if k in ('call', 'same', 'gcall', 'gsame', 'specglom'):
            steps.append([k, draw(st.integers(0, n - 1))])
        elif k == 'flood':
            steps.append(['flood', draw(st.sampled_from([3, 50, 50, 10050]))])
        else:
            steps.append([k])
    # constructed histories (not left to chance): the same call before and after the event that could change it
    shape = draw(st.sampled_from(['free', 'free', 'probe-sandwich', 'toggle-sandwich', 'repeat-inputs', 'greg-sandwich', 'flood-sandwich', 'toggle-sandwich', 'free']))
    if shape != 'free':
        if shape == 'repeat-inputs':
            # the same call again with the very same input objects: a caller-supplied path= list handed in twice, a Match
            # pattern whose absent Optional keys get their defaults
            if draw(st.booleans()):
                pool[0] = gen_pathkw(draw)
                via = draw(st.sampled_from(['same', 'same', 'gsame']))
            else:
                pool[0] = gen_optdefaults(draw)
                via = draw(st.sampled_from(['call', 'same', 'gcall', 'specglom']))
            core = [[via, 0]] * draw(st.sampled_from([2, 2, 3]))
            core = [list(c_) for c_ in core]
        elif shape == 'probe-sandwich':
            # a custom spec asks the registry with raise_exc=False; the call that needs that handler comes after it
            # (and, in half of the cases, before it too), through the same registry
            pair = draw(st.sampled_from(REG_UNHANDLED)) if draw(st.sampled_from(range(3))) else \
                [draw(st.sampled_from(REG_OPS)), draw(st.sampled_from(sorted(REG_TYPES)))]
            pool[0] = gen_registry(draw, pair, probe=False)
            pool[1] = gen_registry(draw, pair, probe=True)
            via = draw(st.sampled_from([['call', 'same', 'specglom'], ['call', 'same', 'specglom'], ['gcall', 'gsame']]))
            core = [[draw(st.sampled_from(via)), 1], [draw(st.sampled_from(via)), 0]]
            if draw(st.booleans()):
                core.insert(0, [draw(st.sampled_from(via)), 0])
        elif shape == 'greg-sandwich':
            inner = ['slotsc', [['b', ['i', draw(st.integers(0, 9))]]]]
            pool[0] = {'kind': 'slotpath', 'recipe': {'target': ['slotsc', [['a', inner], ['c', ['s', 'x']]]],
                                                      'path': draw(st.sampled_from(['a.b', 'a', 'c', 'a.zz']))}}
            core = [[draw(st.sampled_from(['gcall', 'gsame'])), 0], ['greg'], [draw(st.sampled_from(['gcall', 'gsame'])), 0]]
        elif shape == 'toggle-sandwich':
            pool[0] = {'kind': 'c14', 'recipe': c14.gen_read(draw)}
            core = [['toggle'], [draw(st.sampled_from(['call', 'same', 'gcall'])), 0], ['toggle'],
                    [draw(st.sampled_from(['call', 'same', 'gcall'])), 0]]
            if draw(st.booleans()):
                core = core[1:] + [['toggle'], core[1]]
        else:
            core = [[draw(st.sampled_from(['call', 'same', 'gcall'])), 0], ['flood', 10050], [draw(st.sampled_from(['call', 'same', 'gcall'])), 0]]
        extra = steps[:draw(st.integers(0, 3))]
        out = []
        for c_ in core:
            out.append(c_)
            if extra and draw(st.booleans()):
                out.append(extra.pop())
        steps = out
    return {'pool': pool, 'steps': steps, 'shape': shape}


# ---------------------------------------------------------------------------

_SERVER = []
_SERVER_B = []
_FLOOD = [0]
OTHER_HASHSEED = '4711'     # the checking process and the first reference run under PYTHONHASHSEED=0


def server(slot=_SERVER, hashseed='0'):
    # one reference server PER PROCESS: a shard forked after the parent has already talked to its server (replay files
    # run in the parent) must not share that server's pipes with its siblings
    if not slot or slot[0][0] != os.getpid():
        s = cold.ColdServer(boot.REPO, hashseed=hashseed)
        slot[:] = [(os.getpid(), s)]
        atexit.register(s.close)
    return slot[0][1]


def server_other_hashseed():
    """a second pristine interpreter whose str hashes (hence set orders) differ from this process's"""
    return server(_SERVER_B, OTHER_HASHSEED)


def reachable_ids(v):
    ids = set()
    stack = [v]
    while stack:
        x = stack.pop()
        if id(x) in ids:
            continue
        ids.add(id(x))
        for _, c in tg.children(x):
            stack.append(c)
    return ids


def check(recipe, ctx):
    pool = recipe['pool']
    ctx.label('shape-' + recipe.get('shape', 'free'))
    srv = server()
    star0 = glom.core.PATH_STAR
    star = True
    glom.core.PATH_STAR = True
    nreg = 0
    gregs = 0
    g = Glommer()
    same = {}
    same_kw = {}
    ncalls = {'n': 0}
    last_result = {}
    env = {}
    probed = {}             # (registry, op, type tag) -> what the raise_exc=False probe returned, since the last registration
    history_markers = 0
    compared = 0
    interesting = False
    try:
        for step in recipe['steps']:
            k = step[0]
            if k == 'flood':
                _FLOOD[0] += 1
                for j in range(step[1]):
                    glom.glom({}, 'flood%d_%d' % (_FLOOD[0], j), default=None)
                history_markers += 1
                ctx.label('flood-%s' % ('big' if step[1] > 10000 else 'small'))
                continue
            if k == 'toggle':
                star = not star
                glom.core.PATH_STAR = star
                history_markers += 1
                ctx.label('toggle')
                continue
            if k == 'register':
                cls = type('Throwaway', (object,), {'__slots__': ()})
                glom.register(cls, get=lambda o, key: None)
                probed = dict((k_, v_) for k_, v_ in probed.items() if k_[0] != 'module')
                continue
            if k == 'greg':
                g.register(tg.Slots, get=custom_get)
                gregs += 1
                ctx.label('glommer-register')
                probed = dict((k_, v_) for k_, v_ in probed.items() if k_[0] != 'glommer')
                continue
            i = step[1] % len(pool)
            entry = pool[i]
            target, spec, kw = build_entry(entry['kind'], entry['recipe'], env)
            reuse = k in ('same', 'gsame', 'specglom')
            via_glommer = k in ('gcall', 'gsame')
            via_spec = k == 'specglom'
            if via_spec:
                spec = glom.Spec(spec, scope={'k': 'spec-level-k'})
                ncalls['n'] += 1
                call_scope = {'j': 'call-%d' % ncalls['n']}
            if reuse:
                key = (i, via_glommer, via_spec)
                if key in same:
                    spec = same[key]
                    history_markers += 1
                    if entry['kind'] == 'pathkw':
                        kw = same_kw[key]       # the caller passes the very list again
                        if not via_spec:
                            ctx.label('caller-path-reused')
                else:
                    same[key] = spec
                    same_kw[key] = kw
            t_snap = tg.snapshot(target)
            s_snap = tg.snapshot(spec)
            s_repr = cold.ADDR.sub('', repr(spec))
            scope_map = kw.get('scope')
            scope_items = list(scope_map.items()) if scope_map is not None else None
            path_list = kw.get('path') if not via_spec else None
            path_items = list(path_list) if path_list is not None else None
            if path_list is not None:
                ctx.label('caller-path')
            holder = {}

            def run():
                if via_spec:
                    holder['v'] = spec.glom(target, scope=call_scope)
                elif via_glommer:
                    holder['v'] = g.glom(target, spec, **kw)
                else:
                    holder['v'] = glom.glom(target, spec, **kw)
                return holder['v']
            got = cold.canon_outcome(run)
            where = 'step %r of history %r on pool entry %d (%s): glom(%r, %r)' % (
                step, recipe['steps'], i, entry['kind'], target, spec)
            # ---- frame
            d = tg.snapshot_diff(t_snap, tg.snapshot(target))
            if d:
                raise Mismatch('target-mutated', '%s: %s' % (where, d))
            d = tg.snapshot_diff(s_snap, tg.snapshot(spec))
            if d or cold.ADDR.sub('', repr(spec)) != s_repr:
                raise Mismatch('spec-mutated', '%s: %s' % (where, d or 'repr changed'))
            if scope_map is not None and (list(scope_map.items()) != scope_items):
                raise Mismatch('scope-mutated', '%s: caller scope is now %r' % (where, scope_map))
            if path_list is not None and (kw.get('path') is not path_list or list(path_list) != path_items):
                raise Mismatch('path-mutated', '%s: the path= list of the caller, %r, is now %r' % (where, path_items, path_list))
            # ---- history independence
            req = {'kind': entry['kind'], 'recipe': entry['recipe'], 'star': star, 'nreg': 0,
                   'glommer': via_glommer, 'gregs': gregs if via_glommer else 0,
                   'specglom': call_scope if via_spec else None}
            resp = srv.ask(req)
            if 'outcome' not in resp:
                raise HarnessBug('cold reference failed: %r' % (resp,))
            compared += 1
            if history_markers:
                interesting = True
            if resp['outcome'] != got:
                raise Mismatch('history-dependent', '%s: outcome %r, but %r when evaluated first in a pristine process '
                               '(PATH_STAR=%r, %d Glommer registrations)' % (where, got, resp['outcome'], star, gregs if via_glommer else 0))
            # ---- the outcome (the order of a result dict's keys and which error is raised included) is no function of the
            # interpreter's hash seed either: same pair, pristine process under another PYTHONHASHSEED
            if entry['kind'] == 'optdefaults':
                ctx.label('optional-defaults')
                if sum(1 for _, d_ in entry['recipe']['keys'] if d_[0] == 't') >= 2:
                    ctx.label('optional-defaults-failing')
                resp2 = server_other_hashseed().ask(req)
                if 'outcome' not in resp2:
                    raise HarnessBug('cold reference (other hash seed) failed: %r' % (resp2,))
                if resp2['outcome'] != got:
                    raise Mismatch('hash-seed-dependent', '%s: outcome %r, but %r when evaluated first in a pristine process under '
                                   'PYTHONHASHSEED=%s (this process: 0)' % (where, got, resp2['outcome'], OTHER_HASHSEED))
            # ---- (labels) a registry lookup after a custom spec has asked for the same handler with raise_exc=False
            if entry['kind'] == 'registry':
                r_ = entry['recipe']
                pkey = ('glommer' if via_glommer else 'module', r_['op'], r_['type'])
                if r_['form'] == 'probe':
                    ctx.label('registry-probe')
                    history_markers += 1
                    probed[pkey] = holder.get('v')
                else:
                    ctx.label('registry-need')
                    if pkey in probed:
                        ctx.label('need-after-probe', 'need-after-probe-' + ('unhandled' if probed[pkey] == ['no-handler'] else 'handled'))
            # ---- a literal in argument position is never handed out itself
            if entry['kind'] == 'scopelit' and 'v' in holder:
                ctx.label('scope-literal')
                v = holder['v']
                mine = getattr(spec.spec if type(spec) is glom.Spec else spec, 'default', None) if entry['recipe']['form'] == 'default' else None
                if mine is not None and v is mine:
                    raise Mismatch('result-aliases-spec', '%s: the result is the container literal held by the spec' % where)
                if entry['recipe']['form'] == 'default' and isinstance(v, (list, dict, set)):
                    # what the caller does with the result is the caller's business: the next evaluation starts afresh
                    (v.append if isinstance(v, list) else v.add if isinstance(v, set) else (lambda x: v.__setitem__(x, x)))('caller-wrote-this')
            # ---- fresh result containers on re-use of one spec object
            if reuse and not via_spec and 'v' in holder and isinstance(holder['v'], (list, dict)) \
                    and isinstance(spec, (dict, list)):
                # a dict / list spec builds a new container on every evaluation
                v = holder['v']
                prev = last_result.get((i, via_glommer))
                if prev is not None and prev is v:
                    raise Mismatch('results-share-state', '%s: two evaluations returned the same container object' % where)
                if v is spec:
                    raise Mismatch('result-aliases-spec', '%s: the result is the spec container itself' % where)
                last_result[(i, via_glommer)] = v
    finally:
        glom.core.PATH_STAR = star0
    ctx.label('compared-%d' % min(compared, 5))
    ctx.nontrivial(interesting and len(recipe['steps']) >= 3)
    ctx.outcome([[e['kind'] for e in pool], recipe['steps']])


SUBS = [
    Sub('history', check, gen=gen, quick=1600, thorough=4000,
        floors={'toggle': 0.2, 'flood-small': 0.06, 'flood-big': 0.04, 'glommer-register': 0.12, 'shape-greg-sandwich': 0.03, 'shape-toggle-sandwich': 0.04, 'scope-literal': 0.03,
                'caller-path': 0.08, 'caller-path-reused': 0.008, 'optional-defaults': 0.06, 'optional-defaults-failing': 0.02,
                'shape-probe-sandwich': 0.04, 'shape-repeat-inputs': 0.03, 'registry-probe': 0.08, 'need-after-probe-unhandled': 0.03, 'need-after-probe-handled': 0.01}),
]
