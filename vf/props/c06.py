"""C06 — Non-mutating specs are pure: inputs untouched, outcome independent of history.

Each case is a history over a pool of (target, spec) pairs drawn from the non-mutating grammars of
C01 / C03 / C07 / C09 / C10 / C14 / C16 / C17: calls with a freshly built spec, calls re-using one
spec object, cache floods with distinct path strings (one step floods 10 050 at once to overflow
the path memo), PATH_STAR toggles, registrations of throw-away classes on the module-level registry
and of a meaningful handler on a Glommer, interleaved in a generated order.

Oracles
  frame       before/after every call the structure-and-identity snapshot of the target, of the spec
              and of the caller's scope mapping is identical
  history     every call's canonical outcome (value or error class + message) equals the outcome of the
              same pair, under the same PATH_STAR value and the same registrations, evaluated FIRST in
              a pristine process (vf/cold.py: a fresh interpreter that has imported glom and never
              called it forks one child per reference evaluation)
  fresh       two evaluations of one spec object return containers that are not the same object
"""
import atexit
import os
import warnings

from hypothesis import strategies as st

import glom
import glom.core
from glom import Match, Glommer, T, Coalesce
from glom.grouping import Group

from ..runner import Sub, Mismatch, HarnessBug
from .. import targets as tg
from .. import boot
from .. import cold
from . import c01, c03, c07, c09, c10, c14, c16, c17

warnings.filterwarnings('ignore', message=".*have changed behavior in glom version.*")

PROPERTY = 'C06'
RULE = ('histories of 3-12 steps over a pool of 2-4 (target, spec) pairs; steps: call / call-same-spec-object / flood n / '
        'flood 10050 / toggle PATH_STAR / register / Glommer register + call. Non-trivial = >= 3 steps with, before a compared '
        'call, a repeat of the same spec object, a cache flood or a toggle.')
ASSUMPTIONS = [
    'the pristine reference is a forked child of a fresh interpreter that imported glom but never called it (vf/cold.py)',
    'outcomes are compared canonically: structure with types and sharing pattern, error class and message with addresses stripped',
    'module-level registrations are of fresh throw-away classes (they accumulate in the worker process and must not change any outcome)',
]


def custom_get(obj, key):
    return ['custom-get', getattr(obj, key)]


# ---------------------------------------------------------------------------
# pool entries: deterministic builders shared with the cold server

def build_entry(kind, r):
    """(target, spec, kwargs) - a pure function of the recipe"""
    if kind == 'c03':
        return tg.build(r['target']).obj, c03.build(r['spec'], []), {}
    if kind == 'c01':
        steps = [(op, seg) for op, seg in r['steps']]
        sp = 'str' if 'str' in c01.spellings(steps) else 'path'
        return tg.build(r['target']).obj, c01.make_spec(steps, sp), {}
    if kind == 'c09':
        return tg.build(r['target']).obj, Match(c09.build_pat(r['pattern'])), {}
    if kind == 'c10':
        return tg.build(r['target']).obj, Match(c10.build_tree(r['tree'], [], r['build'])), {}
    if kind == 'c14':
        return c14.build_graph(r['graph']).obj, '.'.join(r['segs']), {}
    if kind == 'c16':
        return list(r['items']) or [4], Group(c16.build(r['tree'])), {}
    if kind == 'c17':
        return list(r['source']['items']), c17.build_iter(r).all(), {}
    if kind == 'c07':
        kw = {'scope': dict(r['caller'])} if r['caller'] else {}
        return [1, 2], c07.build(r['tree']), kw
    if kind == 'slotpath':
        return tg.build(r['target']).obj, r['path'], {}
    if kind == 'raiser':
        # a callable raising an exception of a class NAMED Timeout; which class that is (its base) differs between entries
        import builtins
        cls = type('Timeout', (getattr(builtins, r['base']),), {})

        def site(t, cls=cls):
            raise cls('timed out')
        return {'a': 1}, {'k': site}, {}
    if kind == 'scopelit':
        # a container LITERAL in argument position is a template: every evaluation builds a new container from it
        lit = tg.build(r['lit']).obj
        if r['form'] == 'svar':
            return 'tgt', (glom.S(v=lit), {'prev': Coalesce(glom.S.v['last'], default='<none>'), 'cur': glom.A.v['last']}), {}
        if r['form'] == 'default':
            return {}, Coalesce('items', default=lit), {}
        return {}, ('nope', 'nope'), {'default': lit}
    raise ValueError(kind)


def gen_entry(draw):
    kind = draw(st.sampled_from(['c03', 'c03', 'c01', 'c09', 'c10', 'c14', 'c14', 'c16', 'c17', 'c07', 'c07', 'slotpath', 'slotpath', 'scopelit']))
    if kind == 'scopelit' and draw(st.booleans()):
        return {'kind': 'raiser', 'recipe': {'base': draw(st.sampled_from(['ValueError', 'KeyError', 'LookupError', 'RuntimeError']))}}
    if kind == 'scopelit':
        form = draw(st.sampled_from(['svar', 'svar', 'default']))
        lits = [['dict', []], ['dict', [['seed', ['i', 0]]]]] if form == 'svar' else \
            [['dict', []], ['list', []], ['list', [['i', 1]]], ['dict', [['seed', ['i', 0]]]], ['set', []]]
        return {'kind': kind, 'recipe': {'form': form, 'lit': draw(st.sampled_from(lits))}}
    if kind == 'slotpath':
        # attribute objects WITHOUT an instance __dict__ (a subclass of a slot-only class): a Glommer registration for
        # the base class decides their 'get' handler
        inner = ['slotsc', [['b', ['i', draw(st.integers(0, 9))]]]]
        return {'kind': kind, 'recipe': {'target': [draw(st.sampled_from(['slotsc', 'slots'])), [['a', inner], ['c', ['s', 'x']]]],
                                         'path': draw(st.sampled_from(['a.b', 'a', 'c', 'a.zz']))}}
    if kind == 'c03' and draw(st.sampled_from(range(5))) == 0:
        # keyword arguments starred out of a mapping owned by the target, followed by further keyword sources
        r = {'target': ['dict', [['opts', ['dict', [['a', ['i', 1]], ['b', ['i', 2]]]]], ['n', ['i', draw(st.integers(0, 9))]]]],
             'spec': ['invoke', 'collect', [['*', None, ['path', 'opts']],
                                            draw(st.sampled_from([['S', [], [['p', ['path', 'n']]]], ['C', [], [['q', ['i', 7]]]],
                                                                  ['*', None, ['val', ['dict', [['z', ['i', 0]]]]]]]))]]}
    elif kind == 'c03':
        r = c03.gen(draw)
    elif kind == 'c01':
        r = c01.gen(draw)
    elif kind == 'c09':
        r = c09.gen(draw)
        r = {'pattern': r['pattern'], 'target': r['target']}
    elif kind == 'c10':
        r = c10.gen_bool(draw)
    elif kind == 'c14':
        r = c14.gen_read(draw)
    elif kind == 'c16':
        r = c16.gen(draw)
        r = {'tree': r['tree'], 'items': r['items']}
    elif kind == 'c17':
        r = c17.gen(draw)
        r['source']['endless'] = False
        r['terminal'] = 'all'
    else:
        r = c07.gen(draw)
    return {'kind': kind, 'recipe': r}


def gen(draw):
    pool = [gen_entry(draw) for _ in range(draw(st.integers(2, 4)))]
    n = len(pool)
    steps = []
    for _ in range(draw(st.integers(3, 12))):
        k = draw(st.sampled_from(['call', 'call', 'same', 'same', 'same', 'flood', 'toggle', 'register', 'greg', 'gcall', 'gcall', 'gsame', 'specglom']))
        if k in ('call', 'same', 'gcall', 'gsame', 'specglom'):
            steps.append([k, draw(st.integers(0, n - 1))])
        elif k == 'flood':
            steps.append(['flood', draw(st.sampled_from([3, 50, 50, 10050]))])
        else:
            steps.append([k])
    # constructed histories (not left to chance): the same call before and after the event that could change it
    shape = draw(st.sampled_from(['free', 'free', 'free', 'greg-sandwich', 'toggle-sandwich', 'flood-sandwich']))
    if shape != 'free':
        if shape == 'greg-sandwich':
            inner = ['slotsc', [['b', ['i', draw(st.integers(0, 9))]]]]
            pool[0] = {'kind': 'slotpath', 'recipe': {'target': ['slotsc', [['a', inner], ['c', ['s', 'x']]]],
                                                      'path': draw(st.sampled_from(['a.b', 'a', 'c', 'a.zz']))}}
            core = [[draw(st.sampled_from(['gcall', 'gsame'])), 0], ['greg'], [draw(st.sampled_from(['gcall', 'gsame'])), 0]]
        elif shape == 'toggle-sandwich':
            pool[0] = {'kind': 'c14', 'recipe': c14.gen_read(draw)}
            core = [['toggle'], [draw(st.sampled_from(['call', 'same', 'gcall'])), 0], ['toggle'],
                    [draw(st.sampled_from(['call', 'same', 'gcall'])), 0]]
            if draw(st.booleans()):
                core = core[1:] + [['toggle'], core[1]]
        else:
            core = [[draw(st.sampled_from(['call', 'same', 'gcall'])), 0], ['flood', 10050], [draw(st.sampled_from(['call', 'same', 'gcall'])), 0]]
        extra = steps[:draw(st.integers(0, 3))]
        out = []
        for c_ in core:
            out.append(c_)
            if extra and draw(st.booleans()):
                out.append(extra.pop())
        steps = out
    return {'pool': pool, 'steps': steps, 'shape': shape}


# ---------------------------------------------------------------------------

_SERVER = []
_FLOOD = [0]


def server():
    # one reference server PER PROCESS: a shard forked after the parent has already talked to its server (replay files
    # run in the parent) must not share that server's pipes with its siblings
    if not _SERVER or _SERVER[0][0] != os.getpid():
        s = cold.ColdServer(boot.REPO)
        _SERVER[:] = [(os.getpid(), s)]
        atexit.register(s.close)
    return _SERVER[0][1]


def reachable_ids(v):
    ids = set()
    stack = [v]
    while stack:
        x = stack.pop()
        if id(x) in ids:
            continue
        ids.add(id(x))
        for _, c in tg.children(x):
            stack.append(c)
    return ids


def check(recipe, ctx):
    pool = recipe['pool']
    ctx.label('shape-' + recipe.get('shape', 'free'))
    srv = server()
    star0 = glom.core.PATH_STAR
    star = True
    glom.core.PATH_STAR = True
    nreg = 0
    gregs = 0
    g = Glommer()
    same = {}
    ncalls = {'n': 0}
    last_result = {}
    history_markers = 0
    compared = 0
    interesting = False
    try:
        for step in recipe['steps']:
            k = step[0]
            if k == 'flood':
                _FLOOD[0] += 1
                for j in range(step[1]):
                    glom.glom({}, 'flood%d_%d' % (_FLOOD[0], j), default=None)
                history_markers += 1
                ctx.label('flood-%s' % ('big' if step[1] > 10000 else 'small'))
                continue
            if k == 'toggle':
                star = not star
                glom.core.PATH_STAR = star
                history_markers += 1
                ctx.label('toggle')
                continue
            if k == 'register':
                cls = type('Throwaway', (object,), {'__slots__': ()})
                glom.register(cls, get=lambda o, key: None)
                continue
            if k == 'greg':
                g.register(tg.Slots, get=custom_get)
                gregs += 1
                ctx.label('glommer-register')
                continue
            i = step[1] % len(pool)
            entry = pool[i]
            target, spec, kw = build_entry(entry['kind'], entry['recipe'])
            reuse = k in ('same', 'gsame', 'specglom')
            via_glommer = k in ('gcall', 'gsame')
            via_spec = k == 'specglom'
            if via_spec:
                spec = glom.Spec(spec, scope={'k': 'spec-level-k'})
                ncalls['n'] += 1
                call_scope = {'j': 'call-%d' % ncalls['n']}
            if reuse:
                key = (i, via_glommer, via_spec)
                if key in same:
                    spec = same[key]
                    history_markers += 1
                else:
                    same[key] = spec
            t_snap = tg.snapshot(target)
            s_snap = tg.snapshot(spec)
            s_repr = cold.ADDR.sub('', repr(spec))
            scope_map = kw.get('scope')
            scope_items = list(scope_map.items()) if scope_map is not None else None
            holder = {}

            def run():
                if via_spec:
                    holder['v'] = spec.glom(target, scope=call_scope)
                elif via_glommer:
                    holder['v'] = g.glom(target, spec, **kw)
                else:
                    holder['v'] = glom.glom(target, spec, **kw)
                return holder['v']
            got = cold.canon_outcome(run)
            where = 'step %r of history %r on pool entry %d (%s): glom(%r, %r)' % (
                step, recipe['steps'], i, entry['kind'], target, spec)
            # ---- frame
            d = tg.snapshot_diff(t_snap, tg.snapshot(target))
            if d:
                raise Mismatch('target-mutated', '%s: %s' % (where, d))
            d = tg.snapshot_diff(s_snap, tg.snapshot(spec))
            if d or cold.ADDR.sub('', repr(spec)) != s_repr:
                raise Mismatch('spec-mutated', '%s: %s' % (where, d or 'repr changed'))
            if scope_map is not None and (list(scope_map.items()) != scope_items):
                raise Mismatch('scope-mutated', '%s: caller scope is now %r' % (where, scope_map))
            # ---- history independence
            req = {'kind': entry['kind'], 'recipe': entry['recipe'], 'star': star, 'nreg': 0,
                   'glommer': via_glommer, 'gregs': gregs if via_glommer else 0,
                   'specglom': call_scope if via_spec else None}
            resp = srv.ask(req)
            if 'outcome' not in resp:
                raise HarnessBug('cold reference failed: %r' % (resp,))
            compared += 1
            if history_markers:
                interesting = True
            if resp['outcome'] != got:
                raise Mismatch('history-dependent', '%s: outcome %r, but %r when evaluated first in a pristine process '
                               '(PATH_STAR=%r, %d Glommer registrations)' % (where, got, resp['outcome'], star, gregs if via_glommer else 0))
            # ---- a literal in argument position is never handed out itself
            if entry['kind'] == 'scopelit' and 'v' in holder:
                ctx.label('scope-literal')
                v = holder['v']
                mine = getattr(spec.spec if type(spec) is glom.Spec else spec, 'default', None) if entry['recipe']['form'] == 'default' else None
                if mine is not None and v is mine:
                    raise Mismatch('result-aliases-spec', '%s: the result is the container literal held by the spec' % where)
                if entry['recipe']['form'] == 'default' and isinstance(v, (list, dict, set)):
                    # what the caller does with the result is the caller's business: the next evaluation starts afresh
                    (v.append if isinstance(v, list) else v.add if isinstance(v, set) else (lambda x: v.__setitem__(x, x)))('caller-wrote-this')
            # ---- fresh result containers on re-use of one spec object
            if reuse and not via_spec and 'v' in holder and isinstance(holder['v'], (list, dict)) \
                    and isinstance(spec, (dict, list)):
                # a dict / list spec builds a new container on every evaluation
                v = holder['v']
                prev = last_result.get((i, via_glommer))
                if prev is not None and prev is v:
                    raise Mismatch('results-share-state', '%s: two evaluations returned the same container object' % where)
                if v is spec:
                    raise Mismatch('result-aliases-spec', '%s: the result is the spec container itself' % where)
                last_result[(i, via_glommer)] = v
    finally:
        glom.core.PATH_STAR = star0
    ctx.label('compared-%d' % min(compared, 5))
    ctx.nontrivial(interesting and len(recipe['steps']) >= 3)
    ctx.outcome([[e['kind'] for e in pool], recipe['steps']])


SUBS = [
    Sub('history', check, gen=gen, quick=1600, thorough=4000,
        floors={'toggle': 0.2, 'flood-small': 0.07, 'flood-big': 0.04, 'glommer-register': 0.12, 'shape-greg-sandwich': 0.03, 'shape-toggle-sandwich': 0.04, 'scope-literal': 0.03}),
]
