"""C02 — T expressions replay exactly the recorded operations on the target.

Generator: a generated record-like target (ints, float, list, dict, str, None, an attribute
object and a recording `echo` callable) and 1-6 operations chosen *by reference evaluation of
the prefix* so that each operation is valid for the current value (p~0.8) or fails in a chosen
way.  Arguments are literals, nested T expressions and Spec(T-expr) (which must be evaluated
against the ORIGINAL target).

Oracle: vf.texpr.ref_eval - the same operations applied with the `operator` module.
"""
import collections
import decimal

from hypothesis import strategies as st

import glom
from glom import PathAccessError, GlomError, Path, T

from ..runner import Sub, Mismatch
from .. import runner as runner_mod
from .. import targets as tg
from .. import texpr as tx

PROPERTY = 'C02'
RULE = ('expressions rooted at T with 1-6 operations from {.attr, [item], [slice], (call), + - * / // % ** & | ^, ~, neg}, '
        'generated type-directed against the target by reference evaluation of the prefix; ~20% of steps fail on '
        'purpose (missing attr/key/index, wrong operand type, zero division, calling a raising function); a constructed '
        'class (~1 case in 8) fails in an item / arithmetic step with an error class beyond Key/Index/Type/ZeroDivisionError: '
        'zero-step slices, overflowing ** / * and int/int division, %-formatting failures, Decimal signals; a slice step '
        'that arrives at a mapping (target itself, T[\'d\'], T[\'o\'].d). Constructed class (~1 in 10): a LITERAL argument that is '
        'an instance of a list / dict / set / tuple subclass (defaultdict with a factory, user subclasses with attributes or a '
        'constructor that needs arguments, namedtuple; OrderedDict / Counter as controls), as positional / keyword argument, '
        'inside a plain container argument, as index, as arithmetic operand, optionally followed by steps that read its state. '
        'Non-trivial = >= 3 operations of >= 2 kinds, or first failure at step k >= 1, or a nested T/Spec argument.')
ASSUMPTIONS = [
    'reference = the same operation sequence applied with the operator module (vf/texpr.py: ref_eval)',
    'a failing item / slice / arithmetic step must surface as PathAccessError with the step\'s position and the very error '
    'Python raises, whatever its class (statement: "the first operation that fails surfaces as a PathAccessError carrying '
    'that operation\'s position"); attribute steps: AttributeError; failing *call* steps only have their class checked '
    '(DESIGN.md section 6)',
    'nested T/Spec arguments are generated so that they themselves succeed',
    'an argument that is an instance of a container SUBCLASS is neither a T / Spec nor one of the plain list / dict / tuple / set '
    'literals treated as templates: "passed through literally" = the callee / operation gets the very object written in the '
    'expression (identity), with its state outside the items (default_factory, attributes) and its items untouched (a T held by '
    'it is not evaluated); == on containers ignores that state, so results are compared with it (equalish)',
]
BOUNDS = {'ops': '6 quick / 8 thorough (+ up to 3 for a constructed overflow / formatting failure)', 'int operands': '1..7',
          'exponent': '<= 3 (1100 / 4000 / 10**10 only where the overflow is the point)'}


class Echo(object):
    """recording callable: returns its arguments"""
    def __init__(self):
        self.calls = []

    def __call__(self, /, *a, **kw):        # (any keyword, self= too)
        self.calls.append((a, kw))
        return (a, kw)

    def __repr__(self):
        return '<echo>'

    def __eq__(self, other):        # reference and glom run on two separately built targets
        return type(other) is Echo

    def __ne__(self, other):
        return type(other) is not Echo

    __hash__ = None


def boom(*a, **kw):
    raise ValueError('boom', len(a))


class Getter(object):
    """recording subscriptable: obj[key] returns (key,) - what an INDEX argument arrives as is observable"""
    def __init__(self):
        self._calls = []        # (leading underscore: not part of the target's snapshot, like the echo's log)

    def __getitem__(self, key):
        self._calls.append(((key,), {}))
        return (key,)

    def __repr__(self):
        return '<at>'

    def __eq__(self, other):
        return type(other) is Getter

    def __ne__(self, other):
        return type(other) is not Getter

    __hash__ = None


# ---- literal arguments that are instances of container SUBCLASSES carrying state outside their items
# "every other argument is passed through literally": such an object is neither a T nor a Spec, and not one of the plain
# list / dict / tuple / set literals the module treats as templates.  It has to reach the callee / the operation as it is:
# the same object, hence with its default_factory / attributes, and with whatever it holds (a T inside it stays a T).
class Row(list):
    """a list that carries a label"""
    def __init__(self, items=(), tag=None):
        list.__init__(self, items)
        self.tag = tag

    def __radd__(self, other):          # list + Row -> Row (the label is visible in the result of an arithmetic step)
        return Row(list(other) + list(self), self.tag)

    def __repr__(self):
        return 'Row(%s, tag=%r)' % (list.__repr__(self), self.tag)


class Cfg(dict):
    """a dict that carries a name"""
    def __init__(self, items=(), name=None):
        dict.__init__(self, items)
        self.name = name

    def __ror__(self, other):           # dict | Cfg -> Cfg
        return Cfg(list(dict(other).items()) + list(self.items()), self.name)

    def __repr__(self):
        return 'Cfg(%s, name=%r)' % (dict.__repr__(self), self.name)


class Need(list):
    """a list subclass that cannot be constructed without arguments"""
    def __init__(self, tag, items=()):
        list.__init__(self, items)
        self.tag = tag

    def __radd__(self, other):
        return Need(self.tag, list(other) + list(self))

    def __repr__(self):
        return 'Need(%r, %s)' % (self.tag, list.__repr__(self))


class NeedD(dict):
    """a dict subclass that cannot be constructed without arguments"""
    def __init__(self, name, items=()):
        dict.__init__(self, items)
        self.name = name

    def __ror__(self, other):
        return NeedD(self.name, list(dict(other).items()) + list(self.items()))

    def __repr__(self):
        return 'NeedD(%r, %s)' % (self.name, dict.__repr__(self))


class TagSet(set):
    """a set that carries a label"""
    def __init__(self, items=(), tag=None):
        set.__init__(self, items)
        self.tag = tag

    def __repr__(self):
        return 'TagSet(%r, tag=%r)' % (sorted(self, key=repr), self.tag)


Pt = collections.namedtuple('Pt', 'x y')
FACTORIES = {'int': int, 'list': list, 'str': str}
INST_STATEFUL = ('defaultdict', 'Row', 'Cfg', 'Need', 'NeedD', 'TagSet')      # type(x)() loses something
INST_MAPS = ('defaultdict', 'Cfg', 'NeedD', 'OrderedDict', 'Counter')
_BUILT = []         # the instances built since the list was last cleared (check: which object was given to glom)


def _reg(name, fn):
    def ctor(items, state):
        obj = fn(items, state)
        _BUILT.append(obj)
        return obj
    tx.LIT_CLASSES[name] = (name in INST_MAPS, ctor)


_reg('defaultdict', lambda items, state: collections.defaultdict(FACTORIES[state], items))
_reg('OrderedDict', lambda items, state: collections.OrderedDict(items))
_reg('Counter', lambda items, state: collections.Counter(dict(items)))
_reg('Row', lambda items, state: Row(items, state))
_reg('Cfg', lambda items, state: Cfg(items, state))
_reg('Need', lambda items, state: Need(state, items))
_reg('NeedD', lambda items, state: NeedD(state, items))
_reg('TagSet', lambda items, state: TagSet(items, state))
_reg('Pt', lambda items, state: Pt(*items))


def make_target(r):
    echo = Echo()
    t = {'n': r['n'], 'm': r['m'], 'xs': list(r['xs']), 'd': dict(r['d']), 's': r['s'], 'f': r['f'],
         'nil': None, 'echo': echo, 'boom': boom, 'tup': tuple(r['xs'][:2]), 'dec': decimal.Decimal(r['n']),
         # a value that happens to be a glom expression: data, to be passed on as it is
         'tmpl': T['n'],
         'at': Getter()}
    t['o'] = tg.Obj(a=r['m'], xs=t['xs'], echo=echo, d=t['d'], boom=boom)
    return t, echo


def gen_target(draw):
    ints = st.integers(-20, 60)
    return {
        'n': draw(st.sampled_from([7, 9, 13, 21, 35, -15, 3, 5, 257])),
        'm': draw(ints),
        'xs': draw(st.lists(st.integers(0, 9), min_size=0, max_size=5)),
        'd': dict(draw(st.lists(st.tuples(st.sampled_from(['k', 'j', 'n', 'zz']), st.integers(0, 5)), max_size=3))),
        's': draw(st.sampled_from(['', 'ab', 'xyz', 'k', 'n'])),
        'f': draw(st.sampled_from([0.5, 2.0, -1.25, 8.0])),
    }


def gen_inst(draw):
    """an ["inst", ...] literal: an instance of a list / dict / set / tuple subclass, most with state outside the items"""
    S = st.sampled_from
    cls = draw(S(['defaultdict', 'defaultdict', 'Row', 'Cfg', 'Need', 'NeedD', 'TagSet', 'Pt', 'OrderedDict', 'Counter']))

    def atom():
        k = draw(S(range(9)))
        if k == 0:      # held by a literal: stays what it is, is never evaluated (the absent key would fail)
            return ['T', 'T', [['[', ['s', draw(S(['n', 'xs', 'absent']))]]]]
        if k == 1:
            return ['Spec', ['T', 'T', [['[', ['s', draw(S(['m', 'absent']))]]]]]
        if k == 2:
            return ['s', draw(S(['a', 'zz']))]
        if k == 3:
            return ['none']
        return ['i', draw(S(range(6)))]
    if cls == 'Pt':
        return ['inst', cls, [atom(), atom()], None]
    n = draw(S([0, 1, 1, 2, 3]))
    if cls == 'TagSet':
        return ['inst', cls, [['i', i] for i in draw(st.lists(S(range(6)), min_size=n, max_size=n, unique=True))],
                draw(S(['x', 'y', 0]))]
    if cls in INST_MAPS:
        keys = draw(st.lists(S(['a', 'k', 'p', 'zzz']), min_size=n, max_size=n, unique=True))
        items = [[['s', k_], ['i', draw(S(range(1, 6)))] if cls == 'Counter' else atom()] for k_ in keys]
        state = draw(S(['int', 'list', 'str'])) if cls == 'defaultdict' else (
            None if cls in ('OrderedDict', 'Counter') else draw(S(['x', 'y', 0])))
        return ['inst', cls, items, state]
    return ['inst', cls, [atom() for _ in range(n)], draw(S(['x', 'y', 0]))]


def state_read(draw, inst):
    """steps that read, from the instance itself, what it carries besides its items"""
    S = st.sampled_from
    cls = inst[1]
    if cls == 'defaultdict':
        return draw(S([[['[', ['s', 'zzz']]], [['[', ['s', 'qq']]], [['.', 'default_factory']]]))
    if cls == 'Counter':
        return [['[', ['s', 'qq']]]
    if cls in ('Row', 'Need', 'TagSet'):
        return [['.', 'tag']]
    if cls in ('Cfg', 'NeedD'):
        return [['.', 'name']]
    if cls == 'Pt':
        return [['.', 'y']]
    return []


def gen_sublit(draw, target):
    """constructed class: an instance of a container subclass as a LITERAL argument - positional / keyword argument of a
    call, inside a plain container argument, index of an item step, operand of an arithmetic step - optionally followed by
    steps that fetch it from what the callee returned and read its state"""
    S = st.sampled_from
    inst = gen_inst(draw)
    cls = inst[1]
    place = draw(S(['pos', 'kw', 'nested', 'index', 'operand']))
    if place == 'operand' and cls == 'TagSet':
        place = 'pos'
    callee = draw(S([[['[', ['s', 'echo']]], [['[', ['s', 'o']], ['.', 'echo']]]))
    other = lambda: _lit_for_echo(draw, target, 0)
    read = draw(S([True, True, False]))
    if place == 'pos':
        before = [other() for _ in range(draw(S([0, 0, 1, 2])))]
        after = [other() for _ in range(draw(S([0, 0, 1])))]
        kws = [['p', other()]] if draw(S(range(4))) == 0 else []
        steps = callee + [['(', before + [inst] + after, kws]]
        fetch = [['[', ['i', 0]], ['[', ['i', len(before)]]]
    elif place == 'kw':
        kw = draw(S(['p', 'q', 'self', 'self', 'table']))
        before = [other() for _ in range(draw(S([0, 0, 1])))]
        steps = callee + [['(', before, [[kw, inst]] + ([['z', other()]] if draw(S(range(3))) == 0 else [])]]
        fetch = [['[', ['i', 1]], ['[', ['s', kw]]]
    elif place == 'nested':
        wrap = draw(S(['list', 'tuple', 'dict']))
        if wrap == 'dict':
            lit = ['dict', [[['s', 'p'], inst]] + ([[['s', 'r'], other()]] if draw(st.booleans()) else [])]
            inner = ['[', ['s', 'p']]
        else:
            lead = [other() for _ in range(draw(S([0, 0, 1])))]
            lit = [wrap, lead + [inst]]
            inner = ['[', ['i', len(lead)]]
        if draw(st.booleans()):
            steps = callee + [['(', [lit], []]]
            fetch = [['[', ['i', 0]], ['[', ['i', 0]], inner]
        else:
            steps = callee + [['(', [], [['q', lit]]]]
            fetch = [['[', ['i', 1]], ['[', ['s', 'q']], inner]
    elif place == 'index':
        if draw(S(range(3))) == 0:
            steps = [['[', ['s', 'at']], ['[', ['tuple', [inst, other()]]]]
            fetch = [['[', ['i', 0]], ['[', ['i', 0]]]
        else:
            steps = [['[', ['s', 'at']], ['[', inst]]
            fetch = [['[', ['i', 0]]]
    else:
        # (list + Row, dict | defaultdict: the subclass's reflected method comes first and keeps the state in the result)
        start = 'd' if cls in INST_MAPS else 'tup' if cls == 'Pt' else 'xs'
        steps = [['[', ['s', start]], ['bin', '|' if cls in INST_MAPS else '+', inst]]
        fetch = []
        read = read and cls not in ('Pt', 'Counter')
    if read:
        steps = steps + fetch + state_read(draw, inst)
    return steps


def _lit_for_echo(draw, target, depth=1):
    k = draw(st.integers(0, 10))
    if k == 10:
        return gen_inst(draw)
    if k <= 1:
        return ['i', draw(st.integers(-3, 9))]
    if k == 2:
        return ['s', draw(st.sampled_from(['a', 'n', 'xs', 'zz', 'a.b']))]
    if k == 3:
        return ['none']
    if k == 4:
        return ['T', 'T', [['[', ['s', draw(st.sampled_from(['n', 'xs', 'd', 's', 'o', 'tmpl', 'xs', 'd']))]]]]
    if k == 5:
        return ['Spec', ['T', 'T', [['[', ['s', draw(st.sampled_from(['n', 'm', 'f']))]]]]]
    if k == 6:
        return ['tval', [draw(st.sampled_from(['o', 'xs', 'd', 'echo']))]]
    if k == 7 and depth:
        return ['tuple', [_lit_for_echo(draw, target, 0) for _ in range(draw(st.integers(0, 2)))]]
    if k == 8 and depth:
        return ['list', [_lit_for_echo(draw, target, 0) for _ in range(draw(st.integers(0, 2)))]]
    if k == 9 and depth:
        return ['dict', [[['s', 'p'], _lit_for_echo(draw, target, 0)]]]
    return ['builtin', draw(st.sampled_from(['len', 'int', 'abs']))]


def _int_arg(draw, target, nonzero=True):
    """an int operand: literal or nested T/Spec evaluating to an int of the target"""
    k = draw(st.integers(0, 5))
    if k == 0 and target['m'] > 0:
        return ['T', 'T', [['[', ['s', 'm']]]]
    if k == 1 and target['m'] > 0:
        return ['Spec', ['T', 'T', [['.', 'm']]]] if False else ['Spec', ['T', 'T', [['[', ['s', 'm']]]]]
    return ['i', draw(st.integers(1, 7))]


def gen_step(draw, cur, target, fail):
    """one step valid for `cur` (or, if fail, one that fails on it)"""
    S = st.sampled_from
    if fail:
        kind = draw(S(['attr', 'item', 'arith', 'call', 'zero']))
        if kind == 'attr':
            return ['.', draw(S(['zz', 'missing']))]
        if kind == 'item':
            if isinstance(cur, dict):
                if draw(S(range(3))) == 0:      # a slice step that arrives at a mapping: a lookup with a slice as the key
                    return ['[', ['slice', [draw(S([None, 0, 1])), draw(S([None, 2, -1])), draw(S([None, 1, 0]))]]]
                return ['[', ['s', 'absent']]
            if isinstance(cur, (list, tuple, str)):
                return ['[', draw(S([['i', 99], ['s', 'k'], ['i', -99]]))]
            return ['[', ['i', 0]] if not hasattr(cur, '__getitem__') else ['[', ['list', []]]
        if kind == 'arith':
            if isinstance(cur, decimal.Decimal):
                return ['bin', draw(S(['+', '*', '-'])), draw(S([['f', 0.5], ['s', 'q'], ['none']]))]
            if isinstance(cur, (int, float)):
                return ['bin', draw(S(['+', '-', '&', '%'])), ['s', 'q']] if draw(st.booleans()) else ['bin', draw(S(['+', '*', '-'])), ['none']]
            if isinstance(cur, (list, dict, str, tuple)):
                return draw(S([['bin', '-', ['i', 1]], ['un', 'neg'], ['un', '~'], ['bin', '/', ['i', 2]]]))
            return ['bin', '+', ['i', 1]]
        if kind == 'zero':
            if isinstance(cur, (int, float, decimal.Decimal)) and not isinstance(cur, bool):
                return ['bin', draw(S(['/', '//', '%'])), ['i', 0]]
            return ['un', 'neg'] if not isinstance(cur, (int, float)) else ['bin', '/', ['i', 0]]
        # call
        if callable(cur):
            return ['.', 'nope']
        return ['(', [], []]
    # ---- valid steps
    if isinstance(cur, bool) or cur is None:
        return None
    if isinstance(cur, int):
        op = draw(S(['+', '-', '*', '/', '//', '%', '**', '&', '|', '^', '~', 'neg', '//', '//']))
        if op in ('~', 'neg'):
            return ['un', op]
        if abs(cur) > 10 ** 6:
            op = draw(S(['//', '%', '&', '-']))
        if op == '**':
            if abs(cur) > 60:
                return ['bin', '//', ['i', 2]]
            return ['bin', '**', ['i', draw(st.integers(2, 3))]]
        if op == '/':
            return ['bin', '/', ['i', draw(S([2, 4, 8]))]]
        if op in ('&', '|', '^'):
            return ['bin', op, ['i', draw(st.integers(1, 7))]]
        return ['bin', op, _int_arg(draw, target)]
    if isinstance(cur, float):
        op = draw(S(['+', '-', '*', '/', 'neg', '//']))
        if op == 'neg':
            return ['un', 'neg']
        if abs(cur) > 10 ** 9:
            return ['bin', '/', ['i', 4]]
        return ['bin', op, ['f', draw(S([0.5, 2.0, 4.0]))]] if op != '//' else ['bin', '//', ['i', 2]]
    if isinstance(cur, decimal.Decimal):
        op = draw(S(['+', '-', '*', '//', '%', 'neg']))
        if op == 'neg':
            return ['un', 'neg']
        if abs(cur) > 10 ** 9:
            op = draw(S(['//', '%']))
        return ['bin', op, _int_arg(draw, target)]
    if isinstance(cur, str):
        k = draw(st.integers(0, 4))
        if k == 0:
            return ['.', 'upper']
        if k == 1 and len(cur):
            return ['[', ['i', draw(st.integers(-len(cur), len(cur) - 1))]]
        if k == 2:
            return ['bin', '+', ['s', 'x']]
        if k == 3:
            return ['bin', '*', ['i', 2]] if len(cur) < 20 else ['[', ['slice', [0, 2, None]]]
        return ['[', ['slice', [draw(S([None, 0, 1, -1])), draw(S([None, 2, -1, 0])), draw(S([None, 1, 2, -1]))]]]
    if isinstance(cur, (list, tuple)):
        k = draw(st.integers(0, 6))
        if k <= 1 and len(cur):
            i = draw(st.integers(-len(cur), len(cur) - 1))
            if draw(st.integers(0, 3)) == 0 and 0 <= i <= 5 and target['d'].get('k') == i:
                return ['[', ['T', 'T', [['[', ['s', 'd']], ['[', ['s', 'k']]]]]
            return ['[', ['i', i]]
        if k == 2:
            return ['[', ['slice', [draw(S([None, 0, 1, -2])), draw(S([None, 1, 3, -1, 0])), draw(S([None, 1, 2, -1, -2]))]]]
        if k == 3:
            return ['.', 'count']
        if k == 4 and len(cur) < 40:
            return ['bin', '*', ['i', 2]] if draw(st.booleans()) else (
                ['bin', '+', ['list', [['i', 1]]]] if isinstance(cur, list) else ['bin', '+', ['tuple', [['i', 1]]]])
        if k == 5 and isinstance(cur, list) and len(cur):
            return ['.', 'index']
        if k == 6 and isinstance(cur, list):
            return ['bin', '+', ['T', 'T', [['[', ['s', 'xs']]]]]
        return ['.', 'count']
    if isinstance(cur, dict):
        keys = sorted(cur, key=repr)
        k = draw(st.integers(0, 3))
        if k == 0 and keys:
            key = draw(S(keys))
            if isinstance(key, str):
                if key == target['s'] and draw(st.booleans()):
                    return ['[', ['T', 'T', [['[', ['s', 's']]]]]
                if key == target['s'] and draw(st.booleans()):
                    return ['[', ['Spec', ['T', 'T', [['[', ['s', 's']]]]]]
                return ['[', ['s', key]]
        if k == 1:
            return ['.', 'get']
        if k == 2 and keys:
            return ['.', 'keys']
        if keys:
            key = draw(S(keys))
            if isinstance(key, str):
                return ['[', ['s', key]]
        return ['.', 'get']
    if isinstance(cur, tg.Obj):
        return ['.', draw(S(sorted(cur.__dict__)))]
    if isinstance(cur, Echo):
        n = draw(st.integers(0, 3))
        args = [_lit_for_echo(draw, target) for _ in range(n)]
        kws = [[kw, _lit_for_echo(draw, target)] for kw in draw(st.lists(S(['p', 'q', 'self', 'self']), max_size=2, unique=True))]
        return ['(', args, kws]
    if cur is boom:
        return ['(', [['i', 1]], []]
    if callable(cur):
        name = getattr(cur, '__name__', '')
        if name == 'upper':
            return ['(', [], []]
        if name == 'count':
            return ['(', [draw(S([['i', 1]] + [['T', 'T', [['[', ['s', 'n']]]]]))], []]
        if name == 'index':
            owner = cur.__self__
            if len(owner):
                return ['(', [['i', owner[draw(st.integers(0, len(owner) - 1))]]], []]
            return ['(', [['i', 12345]], []]
        if name == 'get':
            return ['(', [['s', draw(S(['k', 'j', 'n', 'absent']))]] + ([['T', 'T', [['[', ['s', 'f']]]]] if draw(st.booleans()) else []), []]
        if name == 'keys':
            return ['(', [], []]
        return None
    return None


ECHO_K = ['T', 'T', [['[', ['s', 'echo']], ['(', [['s', 'k']], []], ['[', ['i', 0]], ['[', ['i', 0]]]]   # -> 'k', logs a call
ABSENT = ['T', 'T', [['[', ['s', 'absent']], ['[', ['s', 'q']]]]                                   # fails when evaluated
POP = ['T', 'T', [['[', ['s', 'xs']], ['.', 'pop'], ['(', [], []]]]                                  # side effect on the target


# ---- failures with an error class beyond the usual ones (F76)
# The classes item / arithmetic steps raise on everyday data.  Used for LABELLING and for choosing generated steps only: the
# expectation (PAE_KINDS below) does not depend on the class.
USUAL = {'item': (KeyError, IndexError, TypeError), 'arith': (TypeError, ZeroDivisionError)}
HUGE = 10 ** 400            # no float can hold it
DEC_ZERO = ['T', 'T', [['[', ['s', 'dec']], ['bin', '*', ['i', 0]]]]          # nested argument -> Decimal(0)
EXOTIC_START = {'slice': ['xs', 'tup', 's'], 'overflow': ['n', 'm', 'f', 'xs', 's', 'tup'], 'format': ['s'],
                'decimal': ['dec', 'dec', 'n', 'm'],
                # a slice step applied to a MAPPING (the target itself, T['d'], T['o'].d): the lookup fails - KeyError(slice)
                # on Python >= 3.12, where slices are hashable, TypeError before - and is a failing item step like any other
                'mapslice': ['d', 'd', 'o', 'ROOT']}


def exotic_candidates(cls, cur, draw):
    """step lists of which the LAST step is meant to fail on `cur` with an unusual error class (gen keeps one only after the
    reference confirmed that); the steps before it are valid and prepare the value"""
    S = st.sampled_from
    B = lambda op, lit: ['bin', op, lit]
    if isinstance(cur, bool) or cur is None:
        return []
    if cls == 'mapslice':
        sl = ['[', ['slice', [draw(S([None, 0, 1, -1])), draw(S([None, 2, -1, 0])), draw(S([None, None, 1, 2, 0]))]]]
        if isinstance(cur, dict):
            return [[sl]]
        if isinstance(cur, tg.Obj):
            return [[['.', 'd'], sl]]
        return []
    if cls == 'slice':
        if isinstance(cur, (list, tuple, str)):
            return [[['[', ['slice', [draw(S([None, 0, 1, -1])), draw(S([None, 2, -1])), 0]]]]]
        return []
    if cls == 'overflow':
        if isinstance(cur, int):
            pre = []
            if abs(cur) < 2:
                pre = [B('+', ['i', 3])]
            elif abs(cur) > 10 ** 6:
                pre = [B('%', ['i', 1000]), B('+', ['i', 2])]
            return [pre + [B('**', ['i', 1100]), B('/', ['i', 3])],         # int / int: result too large for a float
                    pre + [B('**', ['f', 4000.5])],
                    pre + [B('**', ['i', 1100]), B('*', ['f', 0.5])],       # int too large to convert to float
                    pre + [B('**', ['i', 1100]), B('//', ['f', 2.0])]]
        if isinstance(cur, float):
            return [[B('**', ['i', 4000])], [B('**', ['i', -4000])], [B('*', ['i', HUGE])], [B('+', ['i', HUGE])],
                    [B('//', ['i', HUGE])]]
        if isinstance(cur, (list, tuple, str)):
            return [[B('*', ['i', 10 ** 20])]]                             # cannot fit 'int' into an index-sized integer
        return []
    if cls == 'format':
        if isinstance(cur, str) and '%' not in cur:
            return [[B('+', ['s', '%(a)s']), B('%', ['dict', []])],         # KeyError('a')
                    [B('+', ['s', '%(n)s']), B('%', ['dict', [[['s', 'm'], ['i', 1]]]])],
                    [B('+', ['s', '%']), B('%', ['tuple', []])],            # ValueError: incomplete format
                    [B('+', ['s', '%y']), B('%', ['i', 1])],                # ValueError: unsupported format character
                    [B('+', ['s', '%c']), B('%', ['i', -1])]]               # OverflowError: %c arg not in range
        return []
    if cls == 'decimal':
        if isinstance(cur, decimal.Decimal):
            return [[B('%', ['i', 0])],                                     # InvalidOperation
                    [B('*', ['i', 0]), B('/', ['i', 0])],                   # InvalidOperation (0 / 0: DivisionUndefined)
                    [B('**', ['i', 10 ** 10])],                             # Overflow
                    [B('%', DEC_ZERO)]]
        if isinstance(cur, int):
            return [[B('%', DEC_ZERO)], [B('%', ['Spec', DEC_ZERO])]]       # int % Decimal(0): InvalidOperation
        return []
    return []


def exotic_steps(draw, cls, cur, target):
    cands = exotic_candidates(cls, cur, draw)
    if not cands:
        return None
    i = draw(st.sampled_from(range(len(cands))))
    for cand in cands[i:] + cands[:i]:
        try:
            tx.ref_eval(cur, cand, target)
        except tx.RefFail as rf:
            if rf.k == len(cand) - 1 and rf.nested is None and rf.kind in USUAL and (
                    cls == 'mapslice' or not isinstance(rf.exc, USUAL[rf.kind])):
                return cand
    return None


def trailing_step(draw):
    """steps placed AFTER the first failing operation: they must never be evaluated, so their
    nested arguments may fail or have side effects (echo call, xs.pop())"""
    arg = draw(st.sampled_from([ECHO_K, ABSENT, POP, ['Spec', ABSENT], ['Spec', ECHO_K]]))
    k = draw(st.integers(0, 3))
    if k == 0:
        return ['[', arg]
    if k == 1:
        return ['bin', draw(st.sampled_from(['+', '*', '//'])), arg]
    if k == 2:
        return ['(', [arg], []]
    return ['(', [], [['p', arg]]]


def gen(draw):
    trec = gen_target(draw)
    target, _ = make_target(trec)
    start = draw(st.sampled_from(['n', 'n', 'm', 'xs', 'd', 's', 'f', 'o', 'echo', 'nil', 'tup', 'boom', 'dec']))
    # constructed class: the first failure is an item / arithmetic step raising an unusual error class, after `xpos` valid steps
    exotic = (draw(st.sampled_from(['slice', 'slice', 'overflow', 'format', 'decimal', 'mapslice']))
              if draw(st.sampled_from(range(5))) == 0 else None)
    if exotic:
        start = draw(st.sampled_from(EXOTIC_START[exotic]))
        xpos = draw(st.sampled_from([0, 0, 1, 2])) if exotic != 'mapslice' else 0
    if start == 'ROOT':
        steps, cur = [], target
    else:
        steps = [['[', ['s', start]]]
        cur = target[start]
    nops = draw(st.integers(1, 8 if runner_mod.thorough() else 6))
    failed = False
    for i_op in range(nops):
        if exotic and not failed and (i_op >= xpos or i_op == nops - 1):
            xs_ = exotic_steps(draw, exotic, cur, target)
            if xs_:
                steps.extend(xs_)
                failed, cur, exotic = True, None, None
                continue
        fail = draw(st.integers(0, 99)) < 9 and not failed and not exotic
        stp = None
        if failed and draw(st.booleans()):
            stp = trailing_step(draw)
        elif not failed and not fail:
            if draw(st.sampled_from(range(14))) == 0:
                # a nested argument that itself fails: the first failing operation is INSIDE the argument
                bad = draw(st.sampled_from([ABSENT, ['Spec', ABSENT], ['T', 'T', [['[', ['s', 'n']], ['[', ['s', 'q']]]],
                                            ['T', 'T', [['[', ['s', 'xs']], ['[', ['i', 77]]]],
                                            ['T', 'T', [['[', ['s', 'xs']], ['[', ['slice', [None, None, 0]]]]],
                                            ['Spec', ['T', 'T', [['[', ['s', 'dec']], ['bin', '%', ['i', 0]]]]]]))
                stp = draw(st.sampled_from([['[', bad], ['bin', '+', bad], ['(', [bad], []], ['(', [], [['p', bad]]]]))
            elif isinstance(cur, dict) and 'k' in cur and draw(st.integers(0, 3)) == 0:
                stp = ['[', ECHO_K]          # nested argument with an observable side effect
            else:
                stp = gen_step(draw, cur, target, False)
        if stp is None:
            stp = gen_step(draw, cur, target, True)
        steps.append(stp)
        if not failed:
            try:
                cur = tx.ref_eval(cur, [stp], target)
            except tx.RefFail:
                failed = True
                cur = None
    if draw(st.sampled_from(range(10))) == 0:
        steps = gen_sublit(draw, target)
    elif draw(st.sampled_from(range(12))) == 0:
        # a callable of the target called with objects of the target, resolved by nested T / Spec arguments
        own = lambda: ['T', 'T', [['[', ['s', draw(st.sampled_from(['xs', 'd', 'o', 'tmpl']))]]]]
        args = [own() if draw(st.booleans()) else ['Spec', own()] for _ in range(draw(st.integers(1, 2)))]
        kws = [[draw(st.sampled_from(['p', 'self'])), own()]] if draw(st.booleans()) else []
        steps = [draw(st.sampled_from([[['[', ['s', 'echo']]], [['[', ['s', 'o']], ['.', 'echo']]]))][0] + [['(', args, kws]]
    return {'target': trec, 'steps': steps, 'twin_first': draw(st.sampled_from([False, False, True]))}


# "The first operation that fails surfaces as a PathAccessError carrying that operation's position": whatever error the item,
# slice or arithmetic operation raises on the (builtin / Decimal) value - ValueError for a zero slice step, OverflowError,
# the KeyError / ValueError of %-formatting, decimal's signals - is carried by a PathAccessError.  An attribute step is an
# access failure when the attribute is missing (AttributeError; anything else comes from user code behind the attribute);
# a failing call lets the callee's error through (DESIGN.md section 6).
PAE_KINDS = {
    'attr': (AttributeError,),
    'item': (Exception,),
    'arith': (Exception,),
}


def _kinds(steps):
    ks = set()
    for s in steps:
        ks.add(s[0] if s[0] not in ('bin', 'un') else 'arith')
    return ks


_KEEPALIVE = []


def _owned(target):
    """ids of the objects reachable from the target (the objects are kept alive until the next case, so that no id
    of a transient child object is re-used by something created later)"""
    ids = set()
    stack = [target]
    keep = []
    while stack:
        v = stack.pop()
        if id(v) in ids:
            continue
        ids.add(id(v))
        keep.append(v)
        for _, c in tg.children(v):
            stack.append(c)
    _KEEPALIVE.append(keep)
    del _KEEPALIVE[:-4]
    return ids


_PLAIN = (list, dict, tuple, set, frozenset)


def equalish(a, b):
    if type(a) is not type(b):
        return False
    if isinstance(a, _PLAIN) and type(a) not in _PLAIN:
        # an instance of a container subclass: its items AND what it carries besides them (== looks at the items only)
        if getattr(a, 'default_factory', None) is not getattr(b, 'default_factory', None):
            return False
        if not equalish(dict(getattr(a, '__dict__', {})), dict(getattr(b, '__dict__', {}))):
            return False
        if isinstance(a, dict):
            return (not isinstance(a, collections.OrderedDict) or list(a) == list(b)) and equalish(dict(a), dict(b))
        if isinstance(a, (list, tuple)):
            return equalish(list(a), list(b))
        return set(a) == set(b)
    if isinstance(a, (type(T), glom.Spec)):
        return repr(a) == repr(b)       # (T expressions / Specs have no ==; the two worlds hold separately built ones)
    if type(a) in (tuple, list) and 'T[' in repr(a):
        return len(a) == len(b) and all(equalish(x, y) for x, y in zip(a, b))
    if type(a) is dict and 'T[' in repr(a):
        return list(a) == list(b) and all(equalish(a[k_], b[k_]) for k_ in a)
    if isinstance(a, float):
        return a == b or (a != a and b != b)
    if isinstance(a, tuple) and len(a) == 2 and isinstance(a[1], dict) and isinstance(a[0], tuple):
        # echo result: (args, kwargs)
        return (len(a[0]) == len(b[0]) and all(equalish(x, y) for x, y in zip(a[0], b[0]))
                and sorted(a[1]) == sorted(b[1]) and all(equalish(a[1][k], b[1][k]) for k in a[1]))
    if type(a) in (tuple, list):
        return len(a) == len(b) and all(equalish(x, y) for x, y in zip(a, b))
    if type(a) is dict:
        return a.keys() == b.keys() and all(equalish(a[k_], b[k_]) for k_ in a)
    if type(a).__name__ in ('dict_keys',):
        return list(a) == list(b)
    if callable(a) and hasattr(a, '__self__'):
        return a.__name__ == b.__name__ and type(a.__self__) is type(b.__self__) and equalish(a.__self__, b.__self__)
    return a == b


def twin_lit(r):
    """a literal that is == to r but of another type (1 <-> 1.0, True -> 1), or r itself"""
    if r[0] == 'i' and abs(r[1]) < 2 ** 53:
        return ['f', float(r[1])]
    if r[0] == 'f' and r[1] == r[1] and abs(r[1]) < 1e9 and float(r[1]).is_integer():
        return ['i', int(r[1])]
    if r[0] == 'b':
        return ['i', int(r[1])]
    if r[0] == 'tuple':
        return ['tuple', [twin_lit(x) for x in r[1]]]
    return r


def twin_steps(steps):
    out = []
    for s_ in steps:
        if s_[0] == '[':
            out.append(['[', twin_lit(s_[1])])
        elif s_[0] == 'bin':
            out.append(['bin', s_[1], twin_lit(s_[2])])
        else:
            out.append(s_)
    return out


def _tvals(lit):
    """the ["tval", path] recipes of an argument recipe, plain container literals opened"""
    if lit and lit[0] == 'tval':
        return [lit]
    if lit and lit[0] in ('tuple', 'list', 'fset'):
        return [x for e in lit[1] for x in _tvals(e)]
    if lit and lit[0] == 'dict':
        return [x for k_, v in lit[1] for x in _tvals(k_) + _tvals(v)]
    return []


def _insts(lit, inside=False):
    """(recipe, nested?) of every ["inst", ...] literal of an argument recipe that reaches the operation as a literal:
    the argument itself or an element of a plain container literal (not what a nested T / Spec expression holds)"""
    if lit[0] == 'inst':
        return [(lit, inside)]
    if lit[0] in ('tuple', 'list', 'fset'):
        return [x for e in lit[1] for x in _insts(e, True)]
    if lit[0] == 'dict':
        return [x for k_, v in lit[1] for x in _insts(k_, True) + _insts(v, True)]
    return []


READS = (['.', 'tag'], ['.', 'name'], ['.', 'default_factory'], ['.', 'y'], ['[', ['s', 'zzz']], ['[', ['s', 'qq']])


def sublit_labels(steps, upto):
    """labels of the subclass-instance literals among the arguments of the first `upto` steps (those the reference evaluates)"""
    labs = set()
    for i, s_ in enumerate(steps[:upto]):
        found = []
        if s_[0] == '(':
            found = [(x, 'nested' if n else 'positional') for a in s_[1] for x, n in _insts(a)]
            found += [(x, 'nested' if n else 'keyword') for _, a in s_[2] for x, n in _insts(a)]
        elif s_[0] == '[':
            found = [(x, 'index') for x, n in _insts(s_[1])]
        elif s_[0] == 'bin':
            found = [(x, 'operand') for x, n in _insts(s_[2])]
        for x, place in found:
            labs.update(['subclass-literal', 'sublit-' + place, 'sublit-class-' + x[1]])
            if x[1] in INST_STATEFUL:
                labs.add('subclass-literal-stateful')
                if upto == len(steps) and any(r_ in READS for r_ in steps[i + 1:]):
                    labs.add('sublit-state-read')
            if "'T'" in repr(x[2]):
                labs.add('sublit-holds-T')
    return labs


def _pairs(a, b):
    """corresponding objects of two structures that equalish() found equal, plain containers opened"""
    yield a, b
    if type(a) in (tuple, list) and type(b) is type(a):
        for x, y in zip(a, b):
            for p in _pairs(x, y):
                yield p
    elif type(a) is dict and type(b) is dict:
        for k_ in a:
            if k_ in b:
                for p in _pairs(a[k_], b[k_]):
                    yield p


def _carried_class(ctx, where, k, E, err):
    """the PathAccessError that carries E stands for E towards the caller: `except ValueError` around glom(t, T[::0]),
    skip_exc=OverflowError, Coalesce(..., skip_exc=ValueError) must keep working (C04: "an instance of the class of the
    exception originally raised").  Every PathAccessError is an AttributeError, a KeyError and an IndexError by its
    documented bases; the label counts the cases where E's class lies outside those"""
    if not isinstance(E, (AttributeError, KeyError, IndexError)):
        ctx.label('carried-class-beyond-lookup')
    if not isinstance(err, type(E)):
        raise Mismatch('carried-class-lost', '%s: step %d fails with %r; the %s that carries it is not an instance of %s: %r'
                       % (where, k, E, type(err).__name__, type(E).__name__, [c.__name__ for c in type(err).__mro__]))


def check(recipe, ctx):
    steps = recipe['steps']
    if recipe.get('twin_first'):
        # an expression recorded earlier in the same process, with literals that are EQUAL to this one's but of another
        # type (T['xs'][1] vs T['xs'][1.0]): recording is per expression, nothing may be shared between the two
        tw = twin_steps(steps)
        if tw != steps:
            ctx.label('twin-recorded-first')
            try:
                tx.build_t('T', tw, make_target(recipe['target'])[0])
            except Exception:
                pass
    # reference on its own copy of the target (echo logs are per target)
    rt, recho = make_target(recipe['target'])
    o_rt = _owned(rt)           # (before any call: the echo's log will hold whatever it is passed)
    nested_fail = None
    del _BUILT[:]
    try:
        exp = ('ok', tx.ref_eval(rt, steps, rt))
    except tx.RefFail as rf:
        exp = ('err', rf.k, rf.exc, rf.kind)
        nested_fail = rf.nested
    ref_built = list(_BUILT)        # the subclass-instance literals of the reference's world
    gt, gecho = make_target(recipe['target'])
    del _BUILT[:]
    if any(s_[0] == '(' and any(kw == 'self' for kw, _ in s_[2]) for s_ in steps):
        ctx.label('kwarg-self')
    try:
        spec = tx.build_t('T', steps, gt)
    except TypeError as e:
        # every step recipe is an operation Python accepts on a value (f(self=1) is a valid call of a callee that takes it):
        # T must be able to record it
        raise Mismatch('cannot-record', 'steps %r: recording the expression raised TypeError: %s' % (steps, e))
    given = list(_BUILT)            # ... and the ones the expression handed to glom holds
    o_gt = _owned(gt)
    snap = tg.snapshot(gt)
    ctx.label('exp-' + exp[0], 'ops-%d' % min(len(steps), 4))
    ctx.label(*sorted(sublit_labels(steps, len(steps) if exp[0] == 'ok' or nested_fail is not None else exp[1] + 1)))
    if exp[0] == 'err' and any(tx.has_nested([s_]) for s_ in steps[exp[1] + 1:]):
        ctx.label('nested-arg-after-failure')
    kinds = _kinds(steps)
    nested = tx.has_nested(steps)
    ctx.nontrivial((len(steps) >= 3 and len(kinds) >= 2) or (exp[0] == 'err' and exp[1] >= 1) or nested)
    if nested:
        ctx.label('nested-T-arg')
    for s in steps:
        if s[0] == 'bin':
            ctx.label('op' + s[1])
    where = 'spec=%r' % (spec,)
    try:
        got = glom.glom(gt, spec)
        err = None
    except Exception as e:
        got, err = None, e
    if exp[0] == 'ok':
        if err is not None:
            raise Mismatch('spurious-error', '%s: reference gives %r, glom raised %s: %r'
                           % (where, exp[1], type(err).__name__, getattr(err, 'exc', err)))
        if not equalish(got, exp[1]):
            raise Mismatch('wrong-value', '%s: expected %r, got %r' % (where, exp[1], got))
        # a result that is an object of the target must be that very object
        # (not asserted through call steps: arguments are evaluated in argument mode, which
        # rebuilds list/dict values - equal, not identical; see DESIGN.md section 6)
        # (nor for a list / dict of the target that the harness wrote as a LITERAL argument - ["tval", ...]: like any
        # plain container literal it is a template, the callee gets the rebuilt one and may well return that)
        tmpl = [tx.build_lit(r_, rt) for s_ in steps for a in (s_[1] + [v for _, v in s_[2]] if s_[0] == '(' else [s_[-1]])
                if isinstance(a, list) for r_ in _tvals(a)]
        if id(exp[1]) in o_rt and not isinstance(exp[1], tg._ATOM) and not (
                isinstance(exp[1], _PLAIN) and any(exp[1] is o for o in tmpl)):
            # map by position: same construction order in both targets -> compare by path
            if id(got) not in o_gt:
                raise Mismatch('copied-object', '%s: result %r is not the object held by the target' % (where, got))
        # an argument that a nested T resolved to an object of the target reaches the callee as that very object
        if isinstance(exp[1], tuple) and len(exp[1]) == 2 and isinstance(exp[1][0], tuple) and isinstance(exp[1][1], dict) \
                and isinstance(got, tuple) and len(got) == 2 and isinstance(got[0], tuple):
            last = steps[-1]
            pairs = []
            if last[0] == '(' and len(last[1]) == len(exp[1][0]):
                # only arguments written as a nested T / Spec(T): a container LITERAL in argument position is a template
                # that is rebuilt for the call (also when the test harness put an object of the target there)
                pairs += [(a, b) for r_, a, b in zip(last[1], exp[1][0], got[0]) if r_[0] in ('T', 'Spec')]
                pairs += [(exp[1][1][k_], got[1].get(k_)) for k_, r_ in last[2] if r_[0] in ('T', 'Spec') and k_ in exp[1][1]]
            for x_ref, x_got in pairs:
                if id(x_ref) in o_rt and not isinstance(x_ref, tg._ATOM) and id(x_got) not in o_gt:
                    ctx.label('argument-identity-checked')
                    raise Mismatch('copied-argument', '%s: the callee received a copy of %r, not the object held by the target' % (where, x_got))
                if id(x_ref) in o_rt and not isinstance(x_ref, tg._ATOM):
                    ctx.label('argument-identity-checked')
    else:
        _, k, E, kind = exp
        ctx.label('fail-' + kind, 'fail-at-%s' % ('0' if k == 0 else 'k>=1'))
        if kind == 'item' and nested_fail is None and steps[k][0] == '[' and steps[k][1][0] == 'slice' and (
                isinstance(E, KeyError) or 'unhashable' in str(E)):
            ctx.label('fail-slice-on-mapping')      # (no sequence answers a slice with a KeyError / "unhashable")
        if kind in USUAL and not isinstance(E, USUAL[kind]):
            # (which of the constructed classes; a failure inside a nested argument is counted with the step kind it has there)
            fstep = (nested_fail[1] if nested_fail is not None else steps)[k]
            ctx.label('fail-unusual-class',
                      'unusual-decimal-signal' if isinstance(E, decimal.DecimalException) else
                      'unusual-zero-step-slice' if kind == 'item' and isinstance(E, ValueError) else
                      'unusual-format' if fstep[0] == 'bin' and fstep[1] == '%' else
                      'unusual-overflow' if isinstance(E, OverflowError) else 'unusual-other',
                      'unusual-' + type(E).__name__)
        if err is None:
            raise Mismatch('missing-error', '%s: reference fails at step %d with %r, glom returned %r'
                           % (where, k, E, got))
        if nested_fail is not None:
            # the failing operation belongs to the nested argument expression: that is what the error must name
            ctx.label('fail-in-nested-arg')
            inner = tx.build_t(nested_fail[0], nested_fail[1], gt)
            if not isinstance(err, PathAccessError):
                raise Mismatch('not-pae', '%s: nested argument %r fails at its step %d with %r; glom raised %s: %r'
                               % (where, inner, k, E, type(err).__name__, err.args))
            if repr(err.path) != repr(Path(inner)) and repr(err.path) != repr(inner):
                raise Mismatch('wrong-path-attr', '%s: the failing operation is step %d of the nested argument %r, '
                               'the error names %r' % (where, k, inner, err.path))
            if err.part_idx != k or type(err.exc) is not type(E) or err.exc.args != E.args:
                raise Mismatch('wrong-part-idx', '%s: nested argument %r fails at its step %d with %r; error says part %r, %r'
                               % (where, inner, k, E, err.part_idx, err.exc))
            _carried_class(ctx, where, k, E, err)
        elif kind in PAE_KINDS and isinstance(E, PAE_KINDS[kind]):
            if not isinstance(err, PathAccessError):
                raise Mismatch('not-pae', '%s: step %d (%s) fails with %r; glom raised %s: %r'
                               % (where, k, kind, E, type(err).__name__, err.args))
            if err.part_idx != k:
                raise Mismatch('wrong-part-idx', '%s: first failing operation is %d, error says %r (carried %r)'
                               % (where, k, err.part_idx, err.exc))
            if type(err.exc) is not type(E) or err.exc.args != E.args:
                raise Mismatch('wrong-carried-exception', '%s: expected %r, carried %r' % (where, E, err.exc))
            if not isinstance(err, GlomError):
                raise Mismatch('not-glomerror', where)
            _carried_class(ctx, where, k, E, err)
        else:
            if not isinstance(err, type(E)):
                raise Mismatch('class-lost', '%s: step %d raises %r, glom raised %s' % (where, k, E, type(err).__mro__))
            if kind == 'call' and isinstance(E, TypeError) and str(E).endswith('is not callable'):
                # calling a value that is not callable (None, a number): the error is about THAT value
                ctx.label('call-of-non-callable')
                shown = err.args[0] if err.args else ''
                if shown != E.args[0]:
                    raise Mismatch('wrong-callee', '%s: step %d calls a non-callable value (%s); glom reports %r'
                                   % (where, k, E.args[0], shown))
    # argument pass-through: echo must have been called with the same arguments in both worlds
    if len(recho.calls) != len(gecho.calls):
        raise Mismatch('call-count', '%s: echo called %d times by the reference, %d times by glom'
                       % (where, len(recho.calls), len(gecho.calls)))
    if len(rt['at']._calls) != len(gt['at']._calls):
        raise Mismatch('call-count', '%s: <at> indexed %d times by the reference, %d times by glom'
                       % (where, len(rt['at']._calls), len(gt['at']._calls)))
    for (ra, rk), (ga, gk) in zip(recho.calls + rt['at']._calls, gecho.calls + gt['at']._calls):
        if not equalish((ra, rk), (ga, gk)):
            raise Mismatch('wrong-arguments', '%s: expected call %r %r, observed %r %r' % (where, ra, rk, ga, gk))
        # "every other argument is passed through literally": an instance of a container subclass written as an argument
        # (or as an element of a plain container argument) arrives as the very object the expression holds
        for x_ref, x_got in _pairs((ra, rk), (ga, gk)):
            if any(x_ref is o for o in ref_built):
                ctx.label('sublit-identity-checked')
                if not any(x_got is o for o in given):
                    raise Mismatch('literal-copied', '%s: the literal argument %r reached the callee as a copy, not as the '
                                   'object written in the expression' % (where, x_got))
    # literal (non-container) arguments are passed as the identical object
    for st_ in steps:
        if st_[0] == '(':
            lits = [a for a in st_[1]] + [v for _, v in st_[2]]
            for a in lits:
                if a[0] == 'tval' and gecho.calls:
                    obj = tx.build_lit(a, gt)
                    if isinstance(obj, (list, dict, tuple, set, frozenset)):
                        continue      # containers are rebuilt in argument position (C08), equality was checked above
                    flat = [x for c in gecho.calls for x in list(c[0]) + list(c[1].values())]
                    if not any(x is obj for x in flat):
                        raise Mismatch('literal-copied', '%s: argument object %r was not passed through as is' % (where, obj))
    d = tg.snapshot_diff(snap, tg.snapshot(gt))
    if d:
        raise Mismatch('target-mutated', '%s: %s' % (where, d))
    ctx.outcome([repr(spec), exp[0], repr(exp[1])[:80]])


SUBS = [
    Sub('replay', check, gen=gen, quick=8000, thorough=20000,
        floors={'exp-ok': 0.15, 'exp-err': 0.15, 'nested-T-arg': 0.05, 'nested-arg-after-failure': 0.05, 'fail-in-nested-arg': 0.01, 'op//': 0.02, 'fail-at-k>=1': 0.1, 'twin-recorded-first': 0.06, 'argument-identity-checked': 0.02, 'call-of-non-callable': 0.01,
                'fail-unusual-class': 0.07, 'unusual-zero-step-slice': 0.03, 'unusual-overflow': 0.012, 'unusual-format': 0.012,
                'unusual-decimal-signal': 0.015, 'kwarg-self': 0.015,
                # a slice step on a mapping (seed C01-I); subclass-instance literals in argument position (seed C02-J)
                'fail-slice-on-mapping': 0.009,
                # the carried error's class lies outside PathAccessError's own bases: the error must be one of it, too (F111)
                'carried-class-beyond-lookup': 0.14,
                'subclass-literal': 0.075, 'subclass-literal-stateful': 0.06, 'sublit-identity-checked': 0.065,
                'sublit-state-read': 0.045, 'sublit-positional': 0.03, 'sublit-keyword': 0.011, 'sublit-nested': 0.012,
                'sublit-index': 0.008, 'sublit-operand': 0.007, 'sublit-class-defaultdict': 0.03, 'sublit-holds-T': 0.02}),
]
