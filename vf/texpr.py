"""T-expression recipes shared by C02 and C18: builder, reference evaluator, literals.

Literal recipes:  ["i",n] ["s",str] ["f",x] ["b",bool] ["none"] ["ell"] ["bytes",latin1-str]
                  ["tuple",[L..]] ["list",[L..]] ["dict",[[L,L]..]] ["fset",[L..]]
                  ["slice",[a,b,c]]  (ints or null, or literal recipes)   ["builtin", name]
                  ["T", root, steps]    nested expression (root "T"/"S"/"A")
                  ["Spec", L]           Spec(L) where L is a T recipe
                  ["tval", path]        a value *owned by the target* (test harness only): the object
                                        reached from the target by the given list of keys/indexes
                  ["inst", name, items, state]   an instance of a container SUBCLASS registered in LIT_CLASSES by the
                                        property module (C02: defaultdict, user subclasses with attributes): items are
                                        literal recipes ([key, value] pairs for mappings), `state` is what the instance
                                        carries besides its items.  Always a literal: ref_arg does not look inside.
Step recipes:     [".", name] ["[", L] ["(", [L..], [[kw, L]..]] ["bin", op, L] ["un", op] ["x"] ["X"]
                  op for bin: + - * / // % ** & | ^      op for un: ~ neg
"""
import builtins
import operator

import glom
from glom import T, S, A, Spec

ROOTS = {'T': T, 'S': S, 'A': A}

# name -> (is_mapping, constructor(items, state)); filled by the property module that generates ["inst", ...] literals
LIT_CLASSES = {}

BINOPS = {
    '+': operator.add, '-': operator.sub, '*': operator.mul, '/': operator.truediv,
    '//': operator.floordiv, '%': operator.mod, '**': operator.pow,
    '&': operator.and_, '|': operator.or_, '^': operator.xor,
}
UNOPS = {'~': operator.invert, 'neg': operator.neg}


def build_lit(r, target=None):
    tag = r[0]
    if tag in ('i', 's', 'f', 'b'):
        return r[1]
    if tag == 'none':
        return None
    if tag == 'ell':
        return Ellipsis
    if tag == 'bytes':
        return r[1].encode('latin1')
    if tag == 'tuple':
        return tuple(build_lit(x, target) for x in r[1])
    if tag == 'list':
        return [build_lit(x, target) for x in r[1]]
    if tag == 'fset':
        return frozenset(build_lit(x, target) for x in r[1])
    if tag == 'dict':
        return dict((build_lit(k, target), build_lit(v, target)) for k, v in r[1])
    if tag == 'slice':
        # (a part is an int / null, or - C18 - itself a literal recipe: slice(None, int), slice(0, slice(len, None)))
        return slice(*[build_lit(p, target) if isinstance(p, list) else p for p in r[1]])
    if tag == 'builtin':
        return getattr(builtins, r[1])
    if tag == 'T':
        return build_t(r[1], r[2], target)
    if tag == 'Spec':
        return Spec(build_lit(r[1], target))
    if tag == 'inst':
        is_map, ctor = LIT_CLASSES[r[1]]
        items = ([(build_lit(k, target), build_lit(v, target)) for k, v in r[2]] if is_map
                 else [build_lit(x, target) for x in r[2]])
        return ctor(items, r[3])
    if tag == 'tval':
        cur = target
        for k in r[1]:
            cur = cur[k]
        return cur
    raise ValueError('bad literal recipe %r' % (r,))


def build_t(root, steps, target=None):
    t = ROOTS[root]
    for st in steps:
        tag = st[0]
        if tag == '.':
            name = st[1]
            t = t.__(name[2:]) if name.startswith('__') else getattr(t, name)
        elif tag == '[':
            t = t[build_lit(st[1], target)]
        elif tag == '(':
            args = [build_lit(a, target) for a in st[1]]
            kwargs = dict((k, build_lit(v, target)) for k, v in st[2])
            t = t(*args, **kwargs)
        elif tag == 'bin':
            arg = build_lit(st[2], target)
            op = st[1]
            if op == '**':
                t = t ** arg
            else:
                t = BINOPS[op](t, arg)
        elif tag == 'un':
            t = ~t if st[1] == '~' else -t
        elif tag == 'x':
            t = t.__star__()
        elif tag == 'X':
            t = t.__starstar__()
        else:
            raise ValueError('bad step %r' % (st,))
    return t


class RefFail(Exception):
    def __init__(self, k, exc, kind):
        Exception.__init__(self, k, exc, kind)
        self.k, self.exc, self.kind = k, exc, kind
        self.nested = None        # [root, steps] of the nested argument expression in which the failure happened


class NestedFail(RefFail):
    """the first failing operation is inside a nested T / Spec argument (evaluated against the original target)"""
    def __init__(self, inner, root, steps):
        RefFail.__init__(self, inner.k, inner.exc, inner.kind)
        self.nested = [root, steps] if inner.nested is None else inner.nested


def ref_arg(r, target):
    """value an argument recipe denotes: nested T / Spec evaluated against the ORIGINAL target,
    containers rebuilt with the same type, everything else the literal itself"""
    tag = r[0]
    if tag == 'T':
        try:
            return ref_eval(target, r[2], target)
        except NestedFail:
            raise
        except RefFail as rf:
            raise NestedFail(rf, r[1], r[2])
    if tag == 'Spec':
        return ref_arg(r[1], target)
    if tag == 'tuple':
        return tuple(ref_arg(x, target) for x in r[1])
    if tag == 'list':
        return [ref_arg(x, target) for x in r[1]]
    if tag == 'fset':
        return frozenset(ref_arg(x, target) for x in r[1])
    if tag == 'dict':
        return dict((ref_arg(k, target), ref_arg(v, target)) for k, v in r[1])
    return build_lit(r, target)


def ref_eval(cur, steps, target):
    """apply the recorded operations directly, in Python; RefFail(k, exc, kind) on the first failure"""
    for k, st in enumerate(steps):
        tag = st[0]
        try:
            if tag == '.':
                kind = 'attr'
                cur = getattr(cur, st[1])
            elif tag == '[':
                kind = 'item'
                arg = ref_arg(st[1], target)
                cur = cur[arg]
            elif tag == '(':
                kind = 'call'
                args = [ref_arg(a, target) for a in st[1]]
                kwargs = dict((kw, ref_arg(v, target)) for kw, v in st[2])
                cur = cur(*args, **kwargs)
            elif tag == 'bin':
                kind = 'arith'
                arg = ref_arg(st[2], target)
                cur = BINOPS[st[1]](cur, arg)
            elif tag == 'un':
                kind = 'arith'
                cur = UNOPS[st[1]](cur)
            else:
                raise ValueError('bad step %r' % (st,))
        except RefFail:
            raise
        except Exception as e:
            raise RefFail(k, e, kind)
    return cur


def has_nested(steps):
    s = repr(steps)
    return "'T'" in s or "'Spec'" in s
