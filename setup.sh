#!/bin/sh
# Offline setup: make hypothesis (and atheris for the thorough fuzz tiers) importable by /venv/bin/python.
# Nothing is fetched; packages come from /opt/veriftools/wheels and go into /verif/.deps only if missing.
cd "$(dirname "$0")" || exit 2
chmod +x check selftest/mut.py 2>/dev/null
/venv/bin/python -B - <<'PY'
import sys
sys.path.insert(0, '.')
from vf import boot
ok, msg = boot.ensure_deps(need_atheris=False)
if not ok:
    sys.stderr.write('setup: could not install hypothesis offline:\n' + msg[-800:] + '\n')
    sys.exit(2)
ok2, msg2 = boot.ensure_deps(need_atheris=True)
if not ok2:
    sys.stderr.write('setup: atheris not installable (thorough fuzz tiers will be skipped)\n')
import hypothesis
print('setup ok: hypothesis', hypothesis.__version__, 'atheris', 'yes' if ok2 else 'no')
PY
