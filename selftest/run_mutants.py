#!/venv/bin/python -B
"""Runs every mutant of selftest/mutants.py (not a registered check): repo suite must pass, then ./check <ID> quick.
Usage: selftest/run_mutants.py [ID ...]    Results: selftest/mutant_results.json"""
import os, sys, json, subprocess
HERE = os.path.dirname(os.path.abspath(__file__))
sys.path.insert(0, HERE)
from mutants import MUTANTS
only = set(sys.argv[1:])
results = []
for pid, fn, old, new, what in MUTANTS:
    if only and pid not in only:
        continue
    r = subprocess.run([os.path.join(HERE, 'mut.py'), pid, '--tests', '--', fn, old, new], stdout=subprocess.PIPE, stderr=subprocess.STDOUT)
    out = r.stdout.decode('utf8', 'replace')
    status = {0: 'caught', 1: 'MISSED', 2: 'killed-by-suite-or-error'}.get(r.returncode, '?')
    if 'text not found' in out:
        status = 'text-not-found'
    elif 'harness error' in out:
        status = 'harness-error'
    line = [l for l in out.splitlines() if 'sub=' in l][:1]
    print('%-4s %-26s %s | %s' % (pid, status, what, (line[0].strip()[:160] if line else '')))
    sys.stdout.flush()
    results.append({'property': pid, 'what': what, 'status': status, 'detail': line[0].strip()[:300] if line else ''})
json.dump(results, open(os.path.join(HERE, 'mutant_results.json'), 'w'), indent=1)
