#!/venv/bin/python -B
"""Sensitivity helper (not a registered check).

    selftest/mut.py C01 [--tests] [--tier quick] [--sub NAME] -- FILE 'old text' 'new text' [FILE old new ...]
    selftest/mut.py C01 --patch some.diff

Copies $VERIF_BASE (default /repo) to a scratch dir outside /repo and /verif, applies the
textual replacement(s) or the patch, optionally runs the repository's own test suite there,
runs ./check <ID> against the copy (VERIF_REPO) and removes the copy.
Exit status: 0 if the check reported a VIOLATION (mutant caught), 1 if it stayed quiet,
2 on trouble (replacement text not found, tests fail, harness error).
"""
import os
import sys
import shutil
import subprocess
import tempfile

HERE = os.path.dirname(os.path.abspath(__file__))
VERIF = os.path.dirname(HERE)


def main(argv):
    pid = argv.pop(0)
    run_tests = False
    tier = 'quick'
    patch = None
    sub = None
    edits = []
    while argv:
        a = argv.pop(0)
        if a == '--tests':
            run_tests = True
        elif a == '--tier':
            tier = argv.pop(0)
        elif a == '--patch':
            patch = os.path.abspath(argv.pop(0))
        elif a == '--sub':
            sub = argv.pop(0)
        elif a == '--':
            while argv:
                edits.append((argv.pop(0), argv.pop(0), argv.pop(0)))
    base = os.environ.get('VERIF_BASE', '/repo')
    scratch = tempfile.mkdtemp(prefix='glom_mut_', dir='/tmp')
    dst = os.path.join(scratch, 'repo')
    try:
        shutil.copytree(base, dst, ignore=shutil.ignore_patterns('.git', '__pycache__', '*.pyc', '.tox', '.pytest_cache'))
        for fn, old, new in edits:
            p = os.path.join(dst, fn)
            s = open(p).read()
            if s.count(old) < 1:
                print('MUT: text not found in %s: %r' % (fn, old))
                return 2
            s = s.replace(old, new, 1)
            open(p, 'w').write(s)
        if patch:
            r = subprocess.run(['patch', '-p1', '-s', '-i', patch], cwd=dst)
            if r.returncode:
                print('MUT: patch failed')
                return 2
        if run_tests:
            r = subprocess.run(['/venv/bin/python', '-B', '-m', 'pytest', '-q', '-x', '-p', 'no:cacheprovider',
                                '--deselect', 'glom/test/test_cli.py::test_main', 'glom/test'],
                               cwd=dst, stdout=subprocess.PIPE, stderr=subprocess.STDOUT)
            tail = r.stdout.decode('utf8', 'replace').strip().splitlines()[-3:]
            print('MUT: repo tests: rc=%d %s' % (r.returncode, ' | '.join(tail)))
            if r.returncode:
                return 2
        env = dict(os.environ)
        env['VERIF_REPO'] = dst
        cmd = [os.path.join(VERIF, 'check'), pid, tier]
        if sub:
            cmd += ['--sub', sub]
        r = subprocess.run(cmd, env=env, stdout=subprocess.PIPE, stderr=subprocess.STDOUT)
        out = r.stdout.decode('utf8', 'replace')
        lines = out.strip().splitlines()
        for l in lines[:12]:
            print('   ' + l[:400])
        if r.returncode == 1 and 'VIOLATION property=' in out:
            print('MUT: caught')
            return 0
        if r.returncode == 0:
            print('MUT: MISSED')
            return 1
        print('MUT: harness error rc=%d' % r.returncode)
        return 2
    finally:
        shutil.rmtree(scratch, ignore_errors=True)


if __name__ == '__main__':
    sys.exit(main(sys.argv[1:]))
