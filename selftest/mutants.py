"""Hand-written mutants (DESIGN.md section 4, **M** entries): (property, file, old text, new text, what).

selftest/run_mutants.py applies each to a scratch copy of /repo, runs the repository's own suite (a mutant
the suite kills is reported as such and not counted) and the quick tier of the property's check.
"""

MUTANTS = [
    # ---- C01
    ('C01', 'glom/core.py', "def _get_sequence_item(target, index):\n    return target[int(index)]",
     "def _get_sequence_item(target, index):\n    return target[int(index) if not isinstance(index, int) else index]", 'no-op control (must NOT be caught)'),
    ('C01', 'glom/core.py', "            try:\n                cur = get(cur, arg)\n            except Exception as e:\n                pae = PathAccessError(e, Path(_t), i // 2)",
     "            try:\n                cur = get(cur, arg)\n            except (LookupError, AttributeError) as e:\n                pae = PathAccessError(e, Path(_t), i // 2)", "'P' branch no longer wraps ValueError/TypeError"),
    ('C01', 'glom/core.py', "class PathAccessError(GlomError, AttributeError, KeyError, IndexError):", "class PathAccessError(GlomError, AttributeError, KeyError):", 'PathAccessError no longer an IndexError'),
    ('C01', 'glom/core.py', "        self.register(tuple, get=_get_sequence_item)", "        self.register(tuple, get=lambda t, i: t[int(i)] if len(t) else t[i])", 'tuple handler differs on empty tuples'),
    # ---- C02
    ('C02', 'glom/core.py', "                elif op == '-':\n                    cur = cur - arg", "                elif op == '-':\n                    cur = arg - cur", 'operands of - swapped'),
    ('C02', 'glom/core.py', "            except (TypeError, ZeroDivisionError) as e:\n                pae = PathAccessError(e, Path(_t), i // 2)", "            except TypeError as e:\n                pae = PathAccessError(e, Path(_t), i // 2)", 'ZeroDivisionError no longer a PathAccessError'),
    ('C02', 'glom/core.py', "                elif op == '^':\n                    cur = cur ^ arg", "                elif op == '^':\n                    cur = cur | arg", '^ evaluated as |'),
    ('C02', 'glom/core.py', "            except (KeyError, IndexError, TypeError) as e:\n                pae = PathAccessError(e, Path(_t), i // 2)", "            except (KeyError, IndexError) as e:\n                pae = PathAccessError(e, Path(_t), i // 2)", '[item] TypeError no longer wrapped'),
    # ---- C03
    ('C03', 'glom/core.py', "        if nxt is STOP:\n            break\n        res = nxt", "        if nxt is STOP:\n            return nxt\n        res = nxt", 'tuple returns STOP itself'),
    ('C03', 'glom/core.py', "        if val is SKIP:\n            continue\n        if type(field) in (Spec, TType):", "        if val is SKIP or val is None:\n            continue\n        if type(field) in (Spec, TType):", 'dict spec drops None values'),
    ('C03', 'glom/core.py', "                if not self.skip_func(ret):\n                    break\n                skipped.append(ret)", "                if not self.skip_func(ret) and ret is not None:\n                    break\n                skipped.append(ret)", 'Coalesce treats None as skipped'),
    ('C03', 'glom/core.py', "    ret = type(spec)()  # TODO: works for dict + ordereddict, but sufficient for all?", "    ret = {}", 'dict spec always builds a plain dict'),
    # ---- C04
    ('C04', 'glom/core.py', "        except skip_exc:\n            if default is _MISSING:\n                raise\n            ret = default  # should this also be arg_val'd?", "        except skip_exc:\n            if default is _MISSING:\n                raise\n            ret = copy.copy(default)", 'default is copied'),
    ('C04', 'glom/core.py', "    skip_exc = kwargs.pop('skip_exc', () if default is _MISSING else GlomError)", "    skip_exc = kwargs.pop('skip_exc', () if default is _MISSING else Exception)", 'default= swallows every Exception'),
    ('C04', 'glom/core.py', "        if glom_debug:\n            raise", "        if glom_debug and not isinstance(e, GlomError):\n            raise", 'glom_debug ignored for GlomErrors'),
    # ---- C07
    ('C07', 'glom/core.py', "    nxt_in_chain.maps[0][MODE] = scope.maps[0][MODE]\n    return nxt_in_chain", "    nxt_in_chain.maps[0][MODE] = scope.maps[0][MODE]\n    nxt_in_chain.maps[0].update({k: v for k, v in scope.maps[0].items() if isinstance(k, str)})\n    return nxt_in_chain", 'chained step inherits every string binding of the chain frame'),
    ('C07', 'glom/core.py', "        scope.update({\n            k: scope[glom](target, v, scope) for k, v in self._binding.items()})\n        return target", "        scope[UP].update({\n            k: scope[glom](target, v, scope) for k, v in self._binding.items()})\n        return target", 'Let binds in the parent frame (control: Let unused by the check)'),
    # ---- C08
    ('C08', 'glom/core.py', "        if type(spec) is list:\n            return result\n        return type(spec)(result)", "        return result", 'FILL rebuilds tuples / sets as lists'),
    ('C08', 'glom/core.py', "        if type(spec) in (tuple, set, frozenset):  # cannot contain themselves\n            result = type(spec)([recur(val) for val in spec])", "        if type(spec) in (tuple, set, frozenset):  # cannot contain themselves\n            result = tuple([recur(val) for val in spec])", 'argument mode turns sets into tuples'),
    # ---- C09
    ('C09', 'glom/matching.py', "        if len(target) != len(spec):\n            raise MatchError(\"{0!r} does not match {1!r}\", target, spec)", "        if len(target) < len(spec):\n            raise MatchError(\"{0!r} does not match {1!r}\", target, spec)", 'longer tuples accepted'),
    ('C09', 'glom/matching.py', "    for key in set(defaults) - set(result):\n        result[key] = arg_val(target, defaults[key], scope)", "    for key in set(defaults):\n        result[key] = arg_val(target, defaults[key], scope)", 'Optional default overrides a present key'),
    # ---- C10
    ('C10', 'glom/matching.py', "            (op == 'g' and lhs >= rhs) or\n            (op == 'l' and lhs <= rhs)", "            (op == 'g' and lhs > rhs) or\n            (op == 'l' and lhs <= rhs)", '>= evaluated as >'),
    ('C10', 'glom/matching.py', "        if self.vals and target not in self.vals:", "        if self.vals and target != self.vals[0]:", 'Check one_of only compares the first value'),
    # ---- C11 / C12
    ('C11', 'glom/mutation.py', "def _set_sequence_item(target, idx, val):\n    target[int(idx)] = val", "def _set_sequence_item(target, idx, val):\n    idx = int(idx)\n    if idx == len(target):\n        target.append(val)\n    else:\n        target[idx] = val", 'assign to index == len appends'),
    ('C12', 'glom/mutation.py', "            try:\n                delattr(dest, arg)\n            except AttributeError as e:\n                if not self.ignore_missing:\n                    raise PathDeleteError(e, self.path, arg)", "            try:\n                delattr(dest, arg)\n            except AttributeError as e:\n                raise PathDeleteError(e, self.path, arg)", 'ignore_missing not honoured for T.attr'),
    # ---- C14
    ('C14', 'glom/core.py', "                sofar = {id(cur)}  # cur itself is not to be expanded again", "                sofar = set()", 'start value missing from the visited set (F8 reverted)'),
    ('C14', 'glom/core.py', "                try:\n                    cur.append(_t_eval(child, todo, scope))\n                except PathAccessError:\n                    pass", "                try:\n                    cur.append(_t_eval(child, todo, scope))\n                except GlomError:\n                    pass", 'after a wildcard every GlomError is swallowed (control-ish)'),
    # ---- C15
    ('C15', 'glom/reduction.py', "        ret, op = self.init(), self.op\n\n        for v in iterator:\n            ret = op(ret, v)\n\n        return ret", "        ret, op = None, self.op\n\n        for v in iterator:\n            ret = v if ret is None else op(ret, v)\n\n        return self.init() if ret is None else ret", 'Fold starts from the first element'),
    # ---- C16
    ('C16', 'glom/grouping.py', "        if self not in tree or target < tree[self]:\n            tree[self] = target\n        return tree[self]", "        if self not in tree or target <= tree[self]:\n            tree[self] = target\n        return tree[self]", 'Min keeps the last of equal minima (no-op on ints: control)'),
    ('C16', 'glom/grouping.py', "        avg_acc[0] += target\n        avg_acc[1] += 1\n        return avg_acc[0] / avg_acc[1]", "        avg_acc[0] += target\n        avg_acc[1] += 1\n        return avg_acc[0] // avg_acc[1]", 'Avg floors'),
    # ---- C17
    ('C17', 'glom/streaming.py', "        return self._add_op('limit', (count,), lambda it, scope: islice(it, count))", "        return self._add_op('limit', (count,), lambda it, scope: iter(list(it)[:count]))", 'limit materialises the source'),
    ('C17', 'glom/streaming.py', "            if yld is SKIP:\n                continue", "            if yld is SKIP:\n                yield None\n                continue", 'Iter yields None for skipped items'),
    # ---- C18
    ('C18', 'glom/core.py', "    if x.step is None:\n        return fmt(x.start) + \":\" + fmt(x.stop)", "    if x.step is None or x.step == 1:\n        return fmt(x.start) + \":\" + fmt(x.stop)", 'repr drops step 1'),
    ('C18', 'glom/core.py', "    def __len__(self):\n        return (len(self.path_t.__ops__) - 1) // 2", "    def __len__(self):\n        return len(self.path_t.__ops__) // 2", 'Path.__len__ wrong for ... (control: equal)'),
    # ---- C19
    ('C19', 'glom/cli.py', "        print(json.dumps(result, indent=indent, sort_keys=True))", "        print(json.dumps(result, indent=indent))", 'sort_keys dropped'),
    ('C19', 'glom/cli.py', "    if not indent:\n        indent = None", "    if indent is None:\n        indent = None", '--indent 0 passed through as 0'),
]
